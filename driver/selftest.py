"""Self-tests of the machinery: determinism of the simulator, sensitivity to mutants / seeded changes (DESIGN.md section 6)."""
import concurrent.futures as cf
import glob
import os
import re
import shutil
import subprocess
import sys
import tempfile
import time

import amcdriver as D


def determinism(seed, nseeds=2000):
    """Every seed executed twice, in different processes, with two different worker counts, in both builds: transcript hashes must agree."""
    bad = 0
    total = 0
    bins = {v: D.build(v) for v in ('plain', 'asan')}
    info = D.sim_list(bins['plain'])
    jobs = []
    for eng in info['engines']:
        profs = [p for p in eng['profiles'] if not p.endswith('_big')] + ['scenario']
        fams = [f['family'] for f in eng['families']]
        for pi, prof in enumerate(profs):
            # every profile on a rotating subset of families
            for f in fams[pi % 3::3]:
                jobs.append((eng['name'], f, prof))
    per = max(20, nseeds // max(1, len(jobs)))

    def hashes(binary, job, start, count, stride):
        eng, fam, prof = job
        r = subprocess.run([binary, 'hashes', eng, fam, prof, str(seed), str(start), str(count), str(stride)], stdout=subprocess.PIPE, stderr=subprocess.STDOUT, text=True,
                           errors='replace')
        out = {}
        for line in r.stdout.splitlines():
            if line.startswith('H '):
                _, i, h, kind, op = line.split()
                out[int(i)] = (h, kind, op)
        return out, ('DONE' in r.stdout)

    def one(job):
        res = []
        # (a) one process, all seeds; (b) four processes by stride; (c) asan build, one process, half the seeds
        a, oka = hashes(bins['plain'], job, 0, per, 1)
        b = {}
        okb = True
        for k in range(4):
            part, ok = hashes(bins['plain'], job, k, (per + 3 - k) // 4, 4)
            b.update(part); okb = okb and ok
        c, okc = hashes(bins['asan'], job, 0, per // 2, 1)
        diffs = [i for i in a if i in b and a[i] != b[i]] + [i for i in c if i in a and a[i] != c[i]]
        crashed = not (oka and okb and okc)
        return job, len(a), diffs, crashed

    with cf.ThreadPoolExecutor(max(2, D.NPROC // 3)) as ex:
        for job, n, diffs, crashed in ex.map(one, jobs):
            total += n
            if diffs:
                bad += len(diffs)
                D.log('NONDETERMINISM %s/%s/%s: %d seed(s) differ, e.g. index %d' % (job[0], job[1], job[2], len(diffs), diffs[0]))
            if crashed:
                D.log('NOTE %s/%s/%s: a worker stopped early (crash-class seed in the sample)' % job)
    D.log('[selftest determinism] jobs=%d seeds=%d executions=%d (x2 processes, x2 builds) differing=%d' % (len(jobs), total, total * 2 + total // 2, bad))
    return 1 if bad else 0


def read_patch_meta(path):
    prop, desc = None, ''
    for line in open(path):
        if not line.startswith('#'):
            break
        m = re.match(r'#\s*property:\s*(C\d+)', line)
        if m:
            prop = m.group(1)
        elif not desc:
            desc = line[1:].strip()
    return prop, desc


def run_check_on(tree, prop, seconds, extra_env=None):
    env = dict(os.environ, VERIF_REPO=tree, VERIF_QUICK_VARIANT='plain')
    if prop == 'C19':
        env.pop('VERIF_QUICK_VARIANT')  # its second phase is the build with assertions enabled: keep it
    env.update(extra_env or {})
    r = subprocess.run([os.path.join(D.ROOT, 'bin', 'check'), prop, '--tier', 'quick', '--seconds', str(seconds)], stdout=subprocess.PIPE, stderr=subprocess.STDOUT, text=True,
                       env=env, errors='replace')
    return r.returncode, r.stdout


def mutants(names, seconds=12, also_silent=False):
    patches = sorted(glob.glob(os.path.join(D.ROOT, 'mutants', '*.patch')))
    if names:
        patches = [p for p in patches if any(n in os.path.basename(p) for n in names)]
    failed = 0
    rows = []
    for p in patches:
        prop, desc = read_patch_meta(p)
        name = os.path.basename(p)[:-6]
        scratch = tempfile.mkdtemp(prefix='amc-mut-')
        try:
            shutil.copytree(os.path.join(D.REPO, 'include'), os.path.join(scratch, 'include'))
            r = subprocess.run(['patch', '-s', '-p1', '-d', scratch, '-i', p], stdout=subprocess.PIPE, stderr=subprocess.STDOUT, text=True)
            if r.returncode != 0:
                D.log('MUTANT %s: patch does not apply: %s' % (name, r.stdout.strip()[:200]))
                failed += 1
                continue
            t0 = time.time()
            rc, out = run_check_on(scratch, prop, seconds)
            killed = rc == 1 and ('VIOLATION property=%s' % prop) in out
            first = next((l for l in out.splitlines() if l.startswith('  ') and ('||' in l or 'what' in l or ':' in l)), '')
            rows.append((name, prop, 'KILLED' if killed else 'SURVIVED rc=%d' % rc, time.time() - t0))
            D.log('MUTANT %-34s %s -> %s in %.0fs %s' % (name, prop, 'killed' if killed else 'SURVIVED (rc=%d)' % rc, time.time() - t0, first.strip()[:150]))
            if not killed:
                failed += 1
                D.log(out[-1500:])
        finally:
            shutil.rmtree(scratch, ignore_errors=True)
    D.log('[selftest mutants] %d mutant(s), %d not killed' % (len(rows), failed))
    return 1 if failed else 0


def seeded(names, seconds=15):
    """Runs the registered checks against the changes kept under /verif/seeded/<id>/patch.diff (written by independent sub-agents)."""
    import json
    dirs = sorted(glob.glob(os.path.join(D.ROOT, 'seeded', '*')))
    if names:
        dirs = [d for d in dirs if any(n in os.path.basename(d) for n in names)]
    failed = 0
    for d in dirs:
        if not os.path.exists(os.path.join(d, 'meta.json')):
            continue
        meta = json.load(open(os.path.join(d, 'meta.json')))
        prop = meta['property']
        scratch = tempfile.mkdtemp(prefix='amc-seeded-')
        try:
            shutil.copytree(os.path.join(D.REPO, 'include'), os.path.join(scratch, 'include'))
            r = subprocess.run(['patch', '-s', '-p1', '-d', scratch, '-i', os.path.join(d, 'patch.diff')], stdout=subprocess.PIPE, stderr=subprocess.STDOUT, text=True)
            if r.returncode != 0:
                D.log('SEEDED %s: patch does not apply: %s' % (os.path.basename(d), r.stdout.strip()[:200]))
                failed += 1
                continue
            props = [prop] + [p for p in meta.get('also_check', [])]
            res = []
            for pr in props:
                rc, out = run_check_on(scratch, pr, seconds)
                res.append((pr, rc == 1 and ('VIOLATION property=%s' % pr) in out, rc))
            caught = any(k for (_, k, _) in res)
            if not caught:
                # the plain-build shortcut hides what only shows with assertions enabled or under the sanitizers: the real quick tier decides
                res = []
                for pr in props:
                    env = dict(os.environ, VERIF_REPO=scratch)
                    env.pop('VERIF_QUICK_VARIANT', None)
                    r = subprocess.run([os.path.join(D.ROOT, 'bin', 'check'), pr, '--tier', 'quick'], stdout=subprocess.PIPE, stderr=subprocess.STDOUT, text=True, env=env, errors='replace')
                    res.append((pr + '(full quick tier)', r.returncode == 1 and ('VIOLATION property=%s' % pr) in r.stdout, r.returncode))
                caught = any(k for (_, k, _) in res)
            D.log('SEEDED %-28s %s -> %s' % (os.path.basename(d), prop, ' '.join('%s:%s' % (pr, 'caught' if k else 'silent(rc=%d)' % rc) for (pr, k, rc) in res)))
            if not caught:
                failed += 1
        finally:
            shutil.rmtree(scratch, ignore_errors=True)
    D.log('[selftest seeded] %d change(s), %d not caught' % (len(dirs), failed))
    return 1 if failed else 0


def main(rest, tier, seed):
    if not rest:
        print(__doc__)
        return 2
    if rest[0] == 'determinism':
        return determinism(seed, 4000 if tier == 'thorough' else 2000)
    if rest[0] == 'mutants':
        return mutants(rest[1:])
    if rest[0] == 'seeded':
        return seeded(rest[1:])
    print(__doc__)
    return 2
