"""Generates /verif/MANIFEST.json from the driver's check table, so that the two cannot drift apart."""
import json
import os

import amcdriver

SIM = 'deterministic simulation: seeded search over operation histories with a simulated allocator / element life cycle / comparator; '

TEXT = {
    'C01': dict(
        technique=SIM + 'std::vector reference model compared after every step',
        text='Seeded search over operation histories (pool of 2-5 vectors, every public operation incl. range sources of every iterator category '
             'and single-pass streams, 22 type families incl. std::string, std::pair and nested-container elements; also built and run as C++14) with a std::vector reference model compared after each step: element sequence by '
             'identity, returned positions and values, comparison results. Samples histories, does not enumerate them.',
        note='Trusts libstdc++ std::vector as the reference, the simulated allocator and the element ledger; only the compiled configuration '
             'set is explored; capacity is never compared with the model (C07/C18 own it).',
        ref='4/C01'),
    'C02': dict(
        technique=SIM + 'per-object element life-cycle ledger (address- and serial-keyed), ASan/UBSan as a backstop',
        text='Same histories with identity-recording element types: every construction, copy, move, assignment and destruction is booked in a '
             'ledger; double destroy, access outside lifetime, visible moved-from element, memcpy of a non-relocatable element, '
             'self-move-assignment and survivors at the end are violations; conservation (live objects = sum of sizes) is checked after every step.',
        note='Stale reads of trivially relocatable elements that yield the right value are invisible (no hook can sit in memmove); the quick tier '
             'runs under ASan+UBSan, the thorough tier in both builds.',
        ref='4/C02'),
    'C03': dict(
        technique=SIM + 'std::set reference model compared after every step, poisoned default-constructed comparator probe',
        text='Seeded histories over a pool of FlatSets (insert value/rvalue/hint/range/initializer list/node, emplace, emplace_hint, three erase forms, '
             'all lookups incl. heterogeneous keys, both merges, extract, swap, copy, move, comparisons, construction/assignment from a vector, '
             'steal_vector) over four underlying vector kinds, compared step by step with std::set under the same comparator semantics: same '
             'elements by identity (which of several equivalent values is kept), strictly increasing order, booleans, counts, bounds; a '
             'comparator that reports every use of a default-constructed instance decides "the stored comparator object is used".',
        note='Trusts libstdc++ std::set as the reference; equal_range of an absent key is compared only for emptiness; FlatSet over a '
             'FixedCapacityVector is never driven beyond its capacity in this engine.',
        ref='4/C03'),
    'C04': dict(
        technique=SIM + 'std::set reference model compared as a set after every step across the inline/large transition',
        text='Seeded histories over SmallSets with N in {1,2,3,5}, both backings, key domains of 3-9 keys so that every small (content, state) is '
             'reached quickly, with grow-past-N / drain / refill macros, merges between sets of different N, comparator type and ordering, and '
             'comparisons between inline and large sets; contents compared as a set, plus size, emptiness, membership, insertion booleans, erase '
             'counts and comparison results.',
        note='The iteration order of an inline SmallSet is unspecified: a merge whose outcome would depend on it (two source elements equivalent '
             'under the destination comparator) is not generated. Reach of the small scopes is measured, not exhaustive.',
        ref='4/C04'),
    'C11': dict(
        technique=SIM + 'iterator-contract oracle: every returned iterator is matched against a fresh begin()..end() walk before any dereference',
        text='SmallSet histories with a full forward and reverse walk after every step, erase(position) at every position including the last '
             'element of a large set, bounded erase-while-iterating loops: each walk visits every model element exactly once, a returned '
             'iterator equals end() exactly when the model says it designates nothing and otherwise designates the model\'s element, loops '
             'terminate within size()+1 iterations.',
        note='A returned iterator that is neither end() nor a position of the walk is reported as a contract violation instead of being '
             'dereferenced; crashes (bad_variant_access inside noexcept) are still caught by the crash-surviving workers.',
        ref='4/C11'),
    'C19': dict(
        technique=SIM + 'comparator-seam invocation counter per lookup / position search, checked against the stated bounds',
        text='Every FlatSet lookup and position search in histories with bulk-built sets of up to 1024 (quick) / 4096 (thorough) elements is '
             'charged at the comparator seam: <= 2*ceil(log2(n+1))+4 calls; insertion with the correct hint (computed from the model) <= 16 calls '
             'whatever n; inline SmallSet find/contains/count <= 2N+2.',
        note='No fault, schedule or environment decision enters this property: it is an invariant monitor riding on the simulated histories '
             '(criterion (b), the comparator seam). Not an exhaustive sweep over n, keys and ranks.',
        ref='4/C19'),
    'C05': dict(
        technique=SIM + 'allocator-seam and global operator new / malloc call counters, capacity()==N and data()-inside-object monitor',
        text='Histories biased to stay within N with a high rate of copy / move / swap / construction between containers; a per-container '
             '"promise in force" flag is maintained from the statement\'s own rule, and while it is set any allocator request, any global '
             'operator new/malloc reached from an amc call, capacity() != N or data() outside the object is a violation.',
        note='The flag is conservative after a swap/move with a vector that is not under the promise; SmallSet is covered by the set engine.',
        ref='4/C05'),
    'C06': dict(
        technique=SIM + 'allocator ledger (pointer -> count, domain, live) under four allocator kinds, realloc moving or extending by seed',
        text='Every allocate / reallocate / deallocate of every container goes through a simulated heap that books pointer, byte and element '
             'count and allocator domain; wrong count, foreign domain, double free, reallocate on a non-relocatable type or with a wrong old '
             'capacity / live-element count, and any block outstanding after the pool is destroyed are violations. Placement, reuse of freed '
             'blocks and move-vs-extend on reallocate are environment decisions drawn from the seed.',
        note='deallocate(nullptr, n) and reallocate(nullptr, 0, n, 0) are counted but are not block events; all allocator instances of a run compare equal.',
        ref='4/C06'),
    'C07': dict(
        technique=SIM + 'before/after observation of data(), capacity() and element addresses around every step',
        text='Around every step of every history the monitor snapshots data(), capacity() and element addresses: size<=capacity<=max_size, '
             'capacity decreasing only in shrink_to_fit/move/swap, reserve(n) reaching n, no reallocation and no element operation before the '
             'insertion/erasure point when the result fits, buffer hand-over on move from / swap of heap-backed vectors.',
        note='Stale addresses are compared, never dereferenced; the rule is not applied to operations that threw an injected fault.',
        ref='4/C07'),
    'C08': dict(
        technique=SIM + 'expected-exception model at reachable capacity limits, state-unchanged + ledgers + red zones',
        text='Configurations whose limit is reachable (FixedCapacityVector N in {1,4,7,255}, 8-bit and signed size_types) are driven to '
             'limit-k and hit with every growing operation; the model predicts out_of_range / overflow_error, then contents, size and capacity '
             'must equal the pre-call snapshot, red zones must be intact and the element and allocator ledgers balanced; the run continues afterwards.',
        note='Coverage of the (operation x distance x count x position) grid is measured, not promised exhaustive; arguments typed as size_type cannot themselves exceed it.',
        ref='4/C08'),
    'C09': dict(
        technique='deterministic simulation with fault injection: every fault index of a scenario\'s last operation enumerated (element throw, allocator failure) + fault sequences inside seeded histories',
        text='Mode A: scenarios (prefix history + one operation) are sampled by seed and the operation is re-executed with the k-th throwing '
             'event failing, for every k and both fault kinds until no fault fires, so every throw point of that operation is visited. Mode B: '
             'histories in which about one operation in seven carries an attached fault and the history continues afterwards. Oracle: ledgers '
             'conserve, visible elements alive and not moved-from, strong-guarantee list left exactly as it was, everything else re-synchronised '
             'and used again.',
        note='Element moves never throw (with throwing moves even std::vector cannot keep "not moved-from"); capacity is not part of the strong comparison.',
        ref='4/C09'),
    'C10': dict(
        technique=SIM + 'alias-argument micro histories and alias descriptors inside histories, std::vector given a prior copy as oracle',
        text='Micro histories (build a vector of size s with or without spare capacity, then one call whose value argument is element src of the '
             'same vector) over all nine alias-taking operations, plus the same descriptors inside ordinary histories; whether growth moves the '
             'buffer or extends it is an environment decision. Oracle: std::vector given a copy made before the call.',
        note='The (size, position, source, count, grows) grid is sampled with measured coverage, not enumerated.',
        ref='4/C10'),
    'C13': dict(
        technique=SIM + 'exchange-or-unchanged oracle over ordered flavour pairs and operand state classes, both ledgers',
        text='swap2 between any two pool members of a family (vector / SmallVector<N1> / SmallVector<N2> / FixedCapacityVector, differing size_types '
             'and allocators), operand states steered by macro operations, interleaved with ordinary operations so that a corrupted size or '
             'capacity word is used afterwards. Either both sequences are exactly exchanged or the predicted exception is thrown and both keep their contents.',
        note='"Possible" is defined as each size <= the other\'s max_size(); either limit exception class is accepted when both apply.',
        ref='4/C13'),
    'C14': dict(
        technique=SIM + '"relocate the container object by memcpy and abandon the source" as a generated operation; violation attributed to C14 iff it vanishes when relocations are disabled',
        text='For every pool member whose type claims trivially_relocatable, a relocate operation copies the object bytes to a fresh slot, '
             'scribbles and frees the old bytes without running the destructor, and the history continues on the copy; any later divergence, '
             'ledger violation or crash that disappears when the same plan is re-run with relocations disabled is a C14 violation.',
        note='The converse clause (no container claims the trait when a part is not relocatable) is a compile-time fact and is not decided here.',
        ref='4/C14'),
    'C15': dict(
        technique='deterministic fault enumeration: case tuples drawn by seed, every throw index of each case executed, in builds for C++11/14/17/20 '
                  '(-O0, -O2, ASan+UBSan), element ledger and red-zoned raw memory as oracle',
        text='Each case (algorithm x length 0-6 x iterator kind incl. single-pass streams, reverse and strided (non-contiguous) random access and non-pointer destinations x value category incl. types with a trivial constructor but user-provided assignment or move, an initializer_list constructor, converting source->destination types and bytes->bool) is executed fault-free and then once per throw index '
             'until no fault fires, against expectations taken from the C++17/20 standard algorithms (returned iterators and pairs, constructed '
             'values, source state after copy / move / relocate, clean-up on throw, nothing else touched), in twelve builds so that every #ifdef '
             'branch of memory.hpp is instantiated; a missing return shows as a wrong value, a UBSan report, a crash or a hang of the case.',
        note='The C++17/20 builds run the same expectations against the std:: algorithms amc aliases, which keeps the reference implementation '
             'honest; array forms are exercised only where amc provides its own emulation.',
        ref='4/C15'),
    'C16': dict(
        technique='deterministic simulation replayed in differing builds: identical seeds executed in {c++11,14,17,20} x {extras} x {NDEBUG} x {-O0,-O2} '
                  'builds, transcript (event-log) equality between builds + per-build reference model',
        text='A portable profile (15 vector, 3 FlatSet and, from C++17, 2 SmallSet configurations incl. an over-aligned element and an element whose own swap can throw; standard operations, plus the extras where built; about one vector operation in eight carries an injected element fault) '
             'executes the same seeds in every build of the matrix; the per-step transcripts (operation, arguments, results, exceptions, size, capacity, contents) '
             'must be byte-identical between builds, each build also checks its own std::vector/std::set '
             'model, SFINAE probes check that the extras are absent at compile time when disabled, and a matrix configuration that no longer '
             'compiles is a violation whose replay is the failing compile command.',
        note='Quick tier: a covering subset of 6 builds; thorough: all 32. One compiler (g++ 12).',
        ref='4/C16'),
    'C18': dict(
        technique=SIM + 'allocator-seam call counter and relocation counter around n single appends, with realloc moving or extending by seed',
        text='Start states from short histories, then n single appends through every single-element growth operation (n up to 1200 quick, 5000 thorough, 3.6 million on 2- and 4-byte elements, up to the size_type limit '
             'for 8-bit types), allocators with and without reallocate: reallocations <= 2*ceil(log2 n)+4, relocations linear, every growth step (also of bulk operations inside ordinary histories) by at least the factor 1.5 unless the size_type limits it, reserve(n) with one '
             'request, shrink_to_fit reaching size() or the inline N.',
        note='The reallocation count is a function of start state and n; the simulator owns the seam where it is counted and the move-vs-extend decision. No fault is injected.',
        ref='4/C18'),
    'C20': dict(
        technique='deterministic simulation of thread schedules: real threads released one operation at a time by a seeded scheduler whose hand-offs '
                  'are hidden from ThreadSanitizer\'s happens-before tracking; TSan reports attributed by racing address',
        text='2-6 reader threads call const operations (size, iteration, element access incl. the failing path of at(), find/contains/bounds also with heterogeneous keys, comparisons against private containers in the same or another internal state, copy and range construction) on '
             'one shared container (29 kinds: every flavour and state, 64..600 element sets, a >= 128 KiB buffer) while 0-3 writer threads mutate two containers of their own with a wide operation set; one seed is one interleaving; '
             'ThreadSanitizer judges the operations as concurrent because the scheduler synchronisation is annotated away; a report whose address '
             'lies in the footprint of the shared container (or in an amc:: frame) is a violation; the bytes of the shared container must also be '
             'identical before and after the reader phase.',
        note='Samples schedules at operation granularity (amc has no atomics); every ThreadSanitizer report counts (the harness\'s own shared accesses are inside ignore regions).',
        ref='4/C20'),
}

NOT_APPLICABLE = [
    dict(property_id='C12', reason='pure function of (content, hint, value): no history, fault, schedule or environment decision enters and its quantifier '
                                   'asks for complete enumeration of a bounded input space (bounded-exhaustive checking, a different technique family); hinted '
                                   'insertion with arbitrary hints is still generated inside the C03/C04 workloads'),
    dict(property_id='C17', reason='every clause is a compile-time constant (traits, sizeof, size_type, noexcept) decided by the compiler: nothing executes, '
                                   'so there is nothing to simulate, fault or replay'),
]


def generate():
    checks = []
    for prop in sorted(amcdriver.CHECKS):
        spec = amcdriver.CHECKS[prop]
        t = TEXT[prop]
        checks.append({
            'property_id': prop,
            'quick_cmd': 'bin/check %s --tier quick' % prop,
            'thorough_cmd': 'bin/check %s --tier thorough' % prop,
            'evidence_file': 'evidence/%s.json' % prop,
            'replay_cmd_template': 'bin/check replay {path}',
            'engine': spec.get('engine', 'amcsim'),
            'level_claimed': {'category': spec['level'], 'text': t['text'], 'design_ref': 'DESIGN.md section ' + t['ref']},
            'level_note': t['note'],
            'technique': t['technique'],
        })
    claimed = set(amcdriver.CHECKS)
    na = list(NOT_APPLICABLE)
    for i in range(1, 21):
        p = 'C%02d' % i
        if p not in claimed and p not in [n['property_id'] for n in na]:
            na.append(dict(property_id=p, reason='check not built yet (see DESIGN.md section 10); not claimed until it exists, is deterministic, silent on the tree and kills a mutant'))
    na.sort(key=lambda d: d['property_id'])
    m = {
        'version': 1,
        'setup_cmd': 'bin/check build plain asan plain14 plain20 aux',
        'hooks': {
            'guard': 'AMC_VERIF',
            'enable': 'no hook exists: every seam is a template parameter of the library (allocator, element type, comparator, iterator) or a '
                      'link-time --wrap of malloc/realloc/free; the guard name is reserved and unused',
            'baseline_off_cmd': 'cmake --build /repo/_build && ctest --test-dir /repo/_build -j8 --timeout 900',
            'source_commits': [],
            'add_only': True,
        },
        'engines': [
            {'name': 'memalgo', 'path': 'sim/x_memalgo.cpp', 'serves_properties': ['C15'],
             'kind_free_text': 'C++11-compatible fault-enumeration harness for the amc:: memory algorithms, built in 4 language standards x 3 flag sets'},
            {'name': 'portable', 'path': 'sim/x_portable.cpp', 'serves_properties': ['C16'],
             'kind_free_text': 'C++11-compatible portable profile of the simulator, built in up to 32 configurations; transcripts compared by driver/c16.py'},
            {'name': 'sched', 'path': 'sim/x_sched.cpp', 'serves_properties': ['C20'],
             'kind_free_text': 'seeded one-operation-at-a-time thread scheduler over real threads, built with clang -fsanitize=thread'},
            {'name': 'amcsim', 'path': 'sim/', 'serves_properties': sorted(p for p in claimed if amcdriver.CHECKS[p].get('engine', 'amcsim') == 'amcsim'),
             'kind_free_text': 'C++17 (vector engine also C++14) deterministic simulator (seeded plans, simulated heap / element ledger / comparator / streams, reference models, '
                               'fault attachment, ddmin shrinker, replay gate) driven by driver/amcdriver.py'},
        ],
        'checks': checks,
        'notes': 'Checks rebuild the simulator from /repo\'s current working tree (content-hash keyed cache under build/). '
                 'VERIF_SEED selects the seed base, VERIF_TIER or --tier the tier. Genuine defects found in the pinned tree were repaired by '
                 '"fix:" commits in /repo and are listed in known_findings.txt.',
        'not_applicable': na,
    }
    path = os.path.join(amcdriver.ROOT, 'MANIFEST.json')
    with open(path, 'w') as f:
        json.dump(m, f, indent=1)
        f.write('\n')
    return path
