"""Driver: build cache, worker pool, triage (shrink / signature / known findings / replay gate), evidence."""
import concurrent.futures as cf
import fcntl
import glob
import hashlib
import json
import os
import re
import shutil
import subprocess
import sys
import threading
import time

ROOT = os.path.dirname(os.path.dirname(os.path.abspath(__file__)))
REPO = os.environ.get('VERIF_REPO', '/repo')
BUILD = os.path.join(ROOT, 'build')
REPLAYS = os.path.join(ROOT, 'replays')
# evidence describes checks of /repo itself; runs against another tree (self-tests with VERIF_REPO) must not overwrite it
EVIDENCE = os.path.join(ROOT, 'evidence') if os.path.realpath(REPO) == '/repo' else os.path.join(BUILD, 'evidence-other-tree')
NPROC = int(os.environ.get('VERIF_JOBS', str(os.cpu_count() or 8)))

VARIANTS = {
    'plain': dict(cxx='g++', flags=['-std=c++17', '-O2', '-g0', '-DNDEBUG'], ld=[]),
    'asan': dict(cxx='g++', flags=['-std=c++17', '-O1', '-g', '-fsanitize=address,undefined', '-fno-sanitize-recover=all',
                                   '-fno-omit-frame-pointer', '-DSIM_SANITIZE'], ld=['-fsanitize=address,undefined']),
    'plain20': dict(cxx='g++', flags=['-std=c++20', '-O2', '-g0', '-DNDEBUG'], ld=[]),
    # pre-C++17 builds carry the vector engine only (the headers select other implementations there; SmallSet needs C++17)
    'plain14': dict(cxx='g++', flags=['-std=c++14', '-O2', '-g0', '-DNDEBUG', '-DSIM_VEC_ONLY'], ld=[], vec_only=True),
    'asan14': dict(cxx='g++', flags=['-std=c++14', '-O1', '-g', '-fsanitize=address,undefined', '-fno-sanitize-recover=all',
                                     '-fno-omit-frame-pointer', '-DSIM_SANITIZE', '-DSIM_VEC_ONLY'], ld=['-fsanitize=address,undefined'], vec_only=True),
}
WRAP = ['-Wl,--wrap=malloc,--wrap=realloc,--wrap=free']


# --- work budgets --------------------------------------------------------------------------------------------------------------
# What a check explores is a pure function of (VERIF_SEED, tier): every job of a phase gets a fixed number of runs,
#   runs(job) = rate[variant][job] * nominal seconds of the slice * slices per job * FACTOR,
# where rate (runs per second of one worker among NOMINAL_WORKERS busy ones) was measured once on the reference sandbox and is
# committed in driver/rates.json (`bin/check calibrate` rewrites it).  The wall clock is only a safety cap (CAP_FACTOR x the nominal
# seconds): on a slower or loaded machine the same runs take longer; they are cut short, and the evidence says so, only past the cap.
NOMINAL_WORKERS = 16
FACTOR = 0.7
CAP_FACTOR = 4.0
DEFAULT_RATE = 150.0
RATES_FILE = os.path.join(ROOT, 'driver', 'rates.json')
_rates = None


def rates():
    global _rates
    if _rates is None:
        try:
            _rates = json.load(open(RATES_FILE))
        except (OSError, ValueError):
            _rates = {}
    return _rates


def round2(n):
    """Two significant digits (the committed run counts stay readable and stable against re-calibration noise)."""
    n = int(n)
    if n < 100:
        return max(n, 1)
    mag = 10 ** (len(str(n)) - 2)
    return (n // mag) * mag


def job_key(job):
    return '%s/%s/%s' % job


def planned_runs(variant, jobs, seconds):
    """{job: number of runs} for one phase; depends only on constants, the committed rates and the nominal seconds:
    every job gets an equal share of seconds x NOMINAL_WORKERS x FACTOR worker-seconds."""
    share = seconds * NOMINAL_WORKERS / float(len(jobs)) * FACTOR
    out, missing = {}, []
    table = rates().get(variant, {})
    for j in jobs:
        r = table.get(job_key(j))
        if r is None:
            missing.append(job_key(j))
            r = DEFAULT_RATE
        out[j] = max(16, round2(r * share))
    return out, missing


class HarnessFault(Exception):
    pass


class BuildFailure(HarnessFault):
    def __init__(self, msg, cmd=None):
        super().__init__(msg)
        self.cmd = cmd


def log(*a):
    print(*a, flush=True)


# ----------------------------------------------------------------------------------------------- build
def _hash_tree(sources=None):
    """Content hash of the repository's headers, the simulator's headers and the given sources (default: every source of the main simulator)."""
    h = hashlib.sha256()
    files = sorted(glob.glob(os.path.join(REPO, 'include', 'amc', '*.hpp')))
    files += sorted(glob.glob(os.path.join(ROOT, 'sim', '*.hpp')) + glob.glob(os.path.join(ROOT, 'sim', 'tus', '*.hpp')))
    files += sorted(sources if sources is not None else sim_sources())
    for f in files:
        h.update(os.path.relpath(f, '/').encode())
        with open(f, 'rb') as fh:
            h.update(fh.read())
    return h


def _prune_locks():
    now = time.time()
    for f in glob.glob(os.path.join(BUILD, '.lock-*')):
        try:
            if now - os.path.getmtime(f) > 86400:
                os.remove(f)
        except OSError:
            pass


def _prune(pattern, keep):
    """Remove stale build directories: not the current one, not used for two hours (another check may be running from it), keep the newest three."""
    old = sorted([d for d in glob.glob(pattern) if d != keep], key=os.path.getmtime)
    now = time.time()
    for d in old[:-3]:
        if now - os.path.getmtime(d) > 7200:
            shutil.rmtree(d, ignore_errors=True)
    for d in old[-3:]:
        if now - os.path.getmtime(d) > 86400:
            shutil.rmtree(d, ignore_errors=True)


def sim_sources(vec_only=False):
    src = sorted(glob.glob(os.path.join(ROOT, 'sim', '*.cpp')) + glob.glob(os.path.join(ROOT, 'sim', 'tus', '*.cpp')))
    src = [s for s in src if not os.path.basename(s).startswith('x_')]
    if vec_only:
        src = [s for s in src if not os.path.basename(s).startswith('set_')]
    return src


def build(variant='plain', quiet=False):
    """Build (or reuse) the simulator for the *current* working tree of the repository. Returns the binary path."""
    v = VARIANTS[variant]
    h = _hash_tree(sim_sources(v.get('vec_only', False)))
    h.update(json.dumps([variant, v['cxx'], v['flags'], v['ld']]).encode())
    key = h.hexdigest()[:20]
    os.makedirs(BUILD, exist_ok=True)
    out = os.path.join(BUILD, '%s-%s' % (variant, key))
    binary = os.path.join(out, 'sim')
    lock = open(os.path.join(BUILD, '.lock-%s-%s' % (variant, key)), 'w')  # per tree: checks of another source tree do not wait for this build
    fcntl.flock(lock, fcntl.LOCK_EX)
    try:
        if os.path.exists(os.path.join(out, '.ok')):
            os.utime(out)
            return binary
        t0 = time.time()
        if not quiet:
            log('[build] %s: compiling simulator against %s/include ...' % (variant, REPO))
        os.makedirs(out, exist_ok=True)
        srcs = sim_sources(v.get('vec_only', False))
        objs = []

        def cc(src):
            obj = os.path.join(out, os.path.basename(src)[:-4] + '.o')
            cmd = [v['cxx']] + v['flags'] + ['-I' + os.path.join(REPO, 'include'), '-I' + os.path.join(ROOT, 'sim'), '-c', src, '-o', obj]
            r = subprocess.run(cmd, stdout=subprocess.PIPE, stderr=subprocess.STDOUT, text=True)
            return obj, r.returncode, r.stdout, cmd

        with cf.ThreadPoolExecutor(NPROC) as ex:
            for obj, rc, txt, cmd in ex.map(cc, srcs):
                if rc != 0:
                    raise BuildFailure('compilation failed:\n' + ' '.join(cmd) + '\n' + txt[-3000:], cmd)
                objs.append(obj)
        cmd = [v['cxx']] + v['ld'] + ['-o', binary] + objs + WRAP + ['-lpthread']
        r = subprocess.run(cmd, stdout=subprocess.PIPE, stderr=subprocess.STDOUT, text=True)
        if r.returncode != 0:
            raise BuildFailure('link failed:\n' + r.stdout[-3000:], cmd)
        for o in objs:  # only the binary is needed afterwards (a sanitizer build's objects are ~0.8 GB)
            try:
                os.remove(o)
            except OSError:
                pass
        open(os.path.join(out, '.ok'), 'w').write(key)
        if not quiet:
            log('[build] %s: done in %.0fs -> %s' % (variant, time.time() - t0, out))
        # prune stale build dirs of this variant
        _prune(os.path.join(BUILD, variant + '-*'), out)
        _prune_locks()
        return binary
    finally:
        fcntl.flock(lock, fcntl.LOCK_UN)
        lock.close()


def build_aux(name, sources, cxx, flags, ld=(), quiet=True):
    """Build a small auxiliary binary (memalgo, portable, sched) keyed by the same content hash. Returns its path."""
    h = _hash_tree(list(sources))
    h.update(json.dumps([name, cxx, list(flags), list(ld), [os.path.basename(s) for s in sources]]).encode())
    key = h.hexdigest()[:20]
    os.makedirs(BUILD, exist_ok=True)
    out = os.path.join(BUILD, 'aux-%s-%s' % (name, key))
    binary = os.path.join(out, name)
    lock = open(os.path.join(BUILD, '.lock-aux-%s-%s' % (name, key)), 'w')
    fcntl.flock(lock, fcntl.LOCK_EX)
    try:
        if os.path.exists(os.path.join(out, '.ok')):
            os.utime(out)
            return binary
        os.makedirs(out, exist_ok=True)
        cmd = [cxx] + list(flags) + ['-I' + os.path.join(REPO, 'include'), '-I' + os.path.join(ROOT, 'sim')] + list(sources) + ['-o', binary] + list(ld)
        r = subprocess.run(cmd, stdout=subprocess.PIPE, stderr=subprocess.STDOUT, text=True)
        if r.returncode != 0:
            shutil.rmtree(out, ignore_errors=True)
            raise BuildFailure('compilation of %s failed:\n%s\n%s' % (name, ' '.join(cmd), r.stdout[-3000:]), cmd)
        open(os.path.join(out, '.ok'), 'w').write(key)
        _prune(os.path.join(BUILD, 'aux-%s-*' % name), out)
        return binary
    finally:
        fcntl.flock(lock, fcntl.LOCK_UN)
        lock.close()


def write_evidence(prop, level, tier, seed, coverage, assumptions, wall, nviol):
    ev = {'property_id': prop, 'tier': tier, 'seed': seed, 'level': level, 'coverage': coverage, 'assumptions': assumptions,
          'wall_s': round(wall, 2), 'violations': nviol}
    os.makedirs(EVIDENCE, exist_ok=True)
    tmp = os.path.join(EVIDENCE, prop + '.json.tmp')
    with open(tmp, 'w') as f:
        json.dump(ev, f, indent=1, sort_keys=True)
    os.replace(tmp, os.path.join(EVIDENCE, prop + '.json'))
    return ev


def sim_list(binary):
    r = subprocess.run([binary, 'list'], stdout=subprocess.PIPE, text=True)
    return json.loads(r.stdout)


# ----------------------------------------------------------------------------------------------- search
class Candidate:
    def __init__(self, **kw):
        self.__dict__.update(kw)

    def coarse(self):
        what = re.sub(r'[0-9]+', '#', self.what)[:60]
        return (self.engine, self.family.split('_')[0], self.kind, self.opkind, what)


V_RE = re.compile(r'^V (?:fault=(\d+):(\d+) )?run=(\d+) seed=(\d+) family=(\S+) profile=(\S+) props=(\S+) kind=(\S+) op=(-?\d+) opkind=(\S+) what=(.*)$')
CRASH_RE = re.compile(r'CRASH class=(\S+) signal=(\d+) seed=(\d+) run=(-?\d+) op=(-?\d+) opname=(\S*) props=(\S+) prior=(\S+)(?: fault=(\d+):(\d+))?')


def merge_stats(total, st):
    for k, v in st.items():
        if isinstance(v, (int, float)):
            total[k] = total.get(k, 0) + v
        elif k == 'cells':
            cells = total.setdefault('cells', {})
            for prop, lst in v.items():
                cells.setdefault(prop, set()).update(lst)
        elif isinstance(v, dict):
            d = total.setdefault(k, {})
            for kk, vv in v.items():
                d[kk] = d.get(kk, 0) + vv


class Search:
    """Runs slices (engine, family, profile-or-enum) on a pool of worker processes: a fixed number of runs per job (run indices
    0..n-1 of the job, dealt to its slices by stride, so the set of runs does not depend on the worker count); `seconds` only
    bounds the wall clock (CAP_FACTOR x)."""

    def __init__(self, binary, variant, seed, seconds, workers):
        self.binary, self.variant, self.seed, self.seconds, self.workers = binary, variant, seed, seconds, workers
        self.cands = []
        self.stats = {}
        self.lock = threading.Lock()
        self.harness_faults = []
        self.crashes = 0
        self.planned = 0        # runs planned for this phase
        self.completed = 0      # runs reported done by the workers
        self.capped = []        # slices stopped by the wall-clock cap: (job key, done, planned)
        self.uncalibrated = []

    def _slice(self, job, deadline):
        engine, family, profile, start, stride, count = job
        done_runs = 0
        while True:
            remain = deadline - time.time()
            left = count - done_runs
            if left <= 0:
                return
            if remain <= 0.2:
                with self.lock:
                    self.capped.append(('%s/%s/%s' % (engine, family, profile), done_runs, count))
                return
            if profile == 'scenario':
                cmd = [self.binary, 'enum', engine, family, str(self.seed), str(start), str(left), '%.1f' % remain, str(stride)]
            else:
                cmd = [self.binary, 'run', engine, family, profile, str(self.seed), str(start), str(left), '%.1f' % remain, str(stride)]
            p = subprocess.Popen(cmd, stdout=subprocess.PIPE, stderr=subprocess.STDOUT, text=True, errors='replace')
            done = False
            crash = None
            tail = []
            try:
                for line in p.stdout:
                    line = line.rstrip('\n')
                    m = V_RE.match(line)
                    if m:
                        c = Candidate(engine=engine, fault=(m.group(1) and '%s:%s' % (m.group(1), m.group(2))), run=int(m.group(3)), seed=int(m.group(4)),
                                      family=m.group(5), profile=m.group(6), props=m.group(7).split(','), kind=m.group(8), op=int(m.group(9)),
                                      opkind=m.group(10), what=m.group(11), variant=self.variant)
                        with self.lock:
                            self.cands.append(c)
                        continue
                    if line.startswith('STATS '):
                        try:
                            st = json.loads(line[6:])
                            with self.lock:
                                merge_stats(self.stats, st)
                        except ValueError:
                            pass
                        continue
                    if line.startswith('DONE '):
                        done = True
                        md = re.match(r'DONE runs=(\d+)', line)
                        if md:
                            n = int(md.group(1))
                            with self.lock:
                                self.completed += n
                            if n < left:
                                with self.lock:
                                    self.capped.append(('%s/%s/%s' % (engine, family, profile), done_runs + n, count))
                        continue
                    mc = CRASH_RE.search(line)
                    if mc:
                        crash = mc
                        continue
                    if line.startswith('INTERNAL'):
                        with self.lock:
                            self.harness_faults.append(line)
                        continue
                    if line.strip():
                        tail.append(line)
                        tail = tail[-30:]
            finally:
                p.wait()
            if done:
                return
            # the worker died: a crash-class violation of the in-flight seed
            if crash:
                cls = crash.group(1)
                run = int(crash.group(4))
                cf_ = ('%s:%s' % (crash.group(9), crash.group(10))) if (profile == 'scenario' and crash.group(9) and crash.group(9) != '0') else None
                c = Candidate(engine=engine, fault=cf_, run=run, seed=int(crash.group(3)), family=family, profile=profile,
                              props=crash.group(7).split(','), kind='HANG' if cls == 'HANG' else 'CRASH', op=int(crash.group(5)),
                              opkind=crash.group(6) or '-', what='%s (%s) in %s; %s' % (cls, 'signal ' + crash.group(2) if cls == 'SIGNAL' else cls.lower(),
                                                                                        crash.group(6), ' | '.join(tail[-3:])[:300]), variant=self.variant)
                with self.lock:
                    self.cands.append(c)
                    self.crashes += 1
                if run < 0:
                    return
                n = (run - start) // stride + 1  # runs of this worker up to and including the one that died
                done_runs += n
                with self.lock:
                    self.completed += n
                start = run + stride
                continue
            with self.lock:
                self.harness_faults.append('worker died without a crash report: rc=%s cmd=%s tail=%s' % (p.returncode, ' '.join(cmd), tail[-5:]))
            return

    def run(self, jobs):
        """jobs: list of (engine, family, profile). Every job is split over the workers by stride."""
        if not jobs:
            return
        plan, self.uncalibrated = planned_runs(self.variant, jobs, self.seconds)
        # every job is dealt to `per` worker processes by stride; the slices are queued round-robin over the jobs, so that a run cut
        # short by the wall-clock cap has covered every job to a similar extent
        per = max(1, -(-4 * NOMINAL_WORKERS // len(jobs)))
        slices = []
        for k in range(per):
            for (engine, family, profile) in jobs:
                n = plan[(engine, family, profile)]
                pj = max(1, min(per, n // 8))
                if k == 0:
                    self.planned += n
                if k < pj:
                    slices.append((engine, family, profile, k, pj, (n - k + pj - 1) // pj))
        deadline = time.time() + CAP_FACTOR * self.seconds
        with cf.ThreadPoolExecutor(self.workers) as ex:
            list(ex.map(lambda j: self._slice(j, deadline), slices))


# ----------------------------------------------------------------------------------------------- known findings
def load_known():
    path = os.path.join(ROOT, 'known_findings.txt')
    entries = []
    if os.path.exists(path):
        for line in open(path):
            line = line.strip()
            if not line.startswith('open:'):
                continue
            m = re.match(r'open:\s+property=(C\d+)\s+sig~=(\S+)\s+::\s+(.*)$', line)
            if m:
                entries.append((m.group(1), re.compile(m.group(2)), m.group(3)))
    return entries


# ----------------------------------------------------------------------------------------------- triage
def sim_cmd(binary, args, timeout=600):
    r = subprocess.run([binary] + args, stdout=subprocess.PIPE, stderr=subprocess.STDOUT, text=True, errors='replace', timeout=timeout)
    return r.returncode, r.stdout


def triage(prop, cands, binaries, max_groups=24):
    """Shrink one representative per coarse group, match known findings, gate replays.
    Returns (violations[(replay, what)], known[(desc)], notes, harness_faults)."""
    os.makedirs(REPLAYS, exist_ok=True)
    known_entries = load_known()
    mine = [c for c in cands if prop in c.props]
    groups = {}
    for c in mine:
        groups.setdefault(c.coarse(), []).append(c)
    violations, known, faults = [], {}, []
    shrunk_sigs = {}
    for gi, (key, lst) in enumerate(sorted(groups.items(), key=lambda kv: -len(kv[1]))):
        if gi >= max_groups:
            # too many distinct groups to minimise: report the remaining ones with their full (unminimised) plan as replay file
            c = lst[0]
            rep = os.path.join(REPLAYS, '%s-%s-%d.full.replay' % (prop, c.family, c.seed % 10**10))
            rc, out = sim_cmd(binaries[c.variant], ['plan', c.engine, c.family, c.profile, str(c.seed)] + ([c.fault] if c.fault else []))
            if rc == 0:
                open(rep, 'w').write(out)
            else:
                rep = None
            violations.append((rep, '%s %s in %s (%s): %s [%d occurrences, not minimised]' % (c.kind, c.opkind, c.family, c.profile, c.what, len(lst)), c))
            continue
        c = lst[0]
        binary = binaries[c.variant]
        base = os.path.join(REPLAYS, '%s-%s-%d' % (prop, c.family, c.seed % 10**10))
        planf, repf = base + '.plan', base + '.replay'
        args = ['plan', c.engine, c.family, c.profile, str(c.seed)] + ([c.fault] if c.fault else [])
        rc, out = sim_cmd(binary, args)
        if rc != 0:
            faults.append('cannot regenerate plan for seed %d: %s' % (c.seed, out[-300:]))
            continue
        open(planf, 'w').write(out)
        rc, out = sim_cmd(binary, ['shrink', planf, prop, repf], timeout=900)
        if 'SHRINK ok' not in out and 'CRASH class=' in out:
            # a candidate of a non-crashing violation crashed the in-process shrinker: evaluate every candidate in a forked child
            rc, out = sim_cmd(binary, ['shrink', planf, prop, repf, '--fork'], timeout=1800)
        m = re.search(r'SHRINK ok ops=(\d+)->(\d+) evals=(\d+) kind=(\S+) props=(\S+) forked=(\d) what=(.*)', out)
        if not m:
            if 'SHRINK no-violation' in out or 'property-not-in-set' in out:
                faults.append('violation of seed %d (%s/%s) did not reproduce from its plan: %s' % (c.seed, c.family, c.profile, out.strip()[-300:]))
            else:
                faults.append('shrink failed for seed %d: %s' % (c.seed, out.strip()[-300:]))
            continue
        # replay gate: two fresh processes must reproduce the same violation with the same transcript hash
        results = []
        for _ in range(2):
            rc, o = sim_cmd(binary, ['exec', repf])
            r = re.search(r'RESULT kind=(\S+) props=(\S+) op=(-?\d+) opkind=(\S+) hash=(\S+) deterministic=(\d)', o)
            cr = CRASH_RE.search(o)
            if r:
                results.append(('R', r.group(1), r.group(5), r.group(6), 'REPRODUCED' in o and 'NOT-REPRODUCED' not in o))
            elif cr:
                results.append(('C', cr.group(1), cr.group(6), '1', True))
            else:
                results.append(('?', o[-200:], '', '0', False))
        if results[0] != results[1] or not results[0][4] or results[0][3] != '1':
            faults.append('replay gate failed for %s: %s vs %s' % (repf, results[0], results[1]))
            continue
        with open(repf, 'a') as rf:
            rf.write('variant %s\n' % c.variant)
        rc, sig = sim_cmd(binary, ['sig', repf])
        sig = sig.strip().splitlines()[-1] if sig.strip() else 'SIG ?'
        sig = 'variant=%s family=%s %s' % (c.variant, c.family, sig)
        hit = None
        for (p, rx, desc) in known_entries:
            if p == prop and rx.search(sig):
                hit = desc
                break
        what = '%s: %s' % (m.group(4), m.group(7))
        if hit:
            known.setdefault(hit, []).append((repf, sig, len(lst)))
        else:
            violations.append((repf, what + ' || ' + sig + ' || minimised %s->%s ops in %s re-runs, %d occurrence(s)' % (m.group(1), m.group(2), m.group(3), len(lst)), c))
        try:
            os.remove(planf)
        except OSError:
            pass
    return violations, known, faults


# ----------------------------------------------------------------------------------------------- checks
ELEMS = ['ETriv', 'ETr', 'ENonTr', 'ENonTrX']
VEC_ALL = [e + '_' + k for e in ELEMS for k in ('basic', 'mixed', 'limits')] + ['ETrivS_overlap', 'ETrivB_overlap', 'Arith_basic']
VEC_HOOKS = [e + '_' + k for e in ('ETr', 'ENonTr', 'ENonTrX') for k in ('basic', 'mixed', 'limits')]
VEC_LIMITS = [e + '_limits' for e in ELEMS] + [e + '_basic' for e in ELEMS] + ['ETriv_mixed', 'ETr_mixed', 'ENonTr_mixed']
VEC_SMALL = [e + '_' + k for e in ELEMS for k in ('basic', 'mixed')] + ['ETrivS_overlap', 'ETrivB_overlap']
# library-style element types: std::string (SSO self-pointer), std::pair of (non-)relocatable members, a nested inline SmallVector
VEC_EXOTIC = ['Str_basic', 'PairTN_basic', 'PairNT_basic', 'PairTT_basic', 'Nest_basic', 'NestStr_basic', 'Align_basic']
VEC_EXOTIC_HOOKS = ['PairTN_basic', 'PairNT_basic', 'PairTT_basic', 'Nest_basic']


def vjobs(profile, fams):
    return [('vec', f, profile) for f in fams]


SET_FLAT = ['ETriv_flat', 'ETr_flat', 'ENonTr_flat', 'Str_flat']
SET_SMALL = ['ETriv_small', 'ETr_small', 'ENonTr_small', 'Str_small']
SET_HOOKS = ['ETr_flat', 'ENonTr_flat', 'ETr_small', 'ENonTr_small']


def sjobs(profile, fams):
    return [('set', f, profile) for f in fams]


HIST_RULE = ('seeded operation histories (profile "%s") over a pool of 2-5 vectors of one family (14 families: 4 instrumented element categories x '
             '{basic, mixed, limits} allocator/size_type/N mixes + a pointer-overlap family + an arithmetic (double) element family); an evaluation is one run (one seed = one plan '
             'of ~25 operations plus its environment stream); distinct_nontrivial counts %s')
CHECKS = {
    'C01': dict(level='exploration', jobs=vjobs('hist', VEC_ALL + VEC_EXOTIC), quick=[('asan', 40), ('plain14', 6), ('plain20', 6)], thorough=[('plain', 420), ('asan', 300), ('plain20', 120), ('plain14', 120), ('asan14', 90)], cellprop='1',
                rule=HIST_RULE % ('hist', '(type, operation kind, state class of target, state class of partner, outcome) cells reached')),
    'C02': dict(level='exploration', jobs=vjobs('hist', VEC_HOOKS + VEC_EXOTIC_HOOKS) + vjobs('inline', VEC_HOOKS[:6]) + vjobs('fault', ['ENonTr_basic', 'ETr_mixed', 'ENonTrX_limits', 'PairTN_basic']) + sjobs('sethist', SET_HOOKS) + sjobs('setsmall', SET_HOOKS[2:]) + sjobs('setfault', SET_HOOKS[1:3]), quick=[('asan', 42), ('plain14', 8)],
                thorough=[('plain', 420), ('asan', 300), ('plain14', 120), ('asan14', 90)], cellprop='1',
                rule=HIST_RULE % ('hist/inline, identity-recording element types only',
                                  '(type, operation kind, state classes, outcome) cells reached with the element ledger balanced after the step')),
    'C03': dict(level='exploration', jobs=sjobs('sethist', SET_FLAT) + sjobs('setfault', ['ETr_flat', 'ENonTr_flat']), quick=[('asan', 36), ('plain20', 7)], thorough=[('plain', 420), ('asan', 300), ('plain20', 120)], cellprop='3',
                rule='seeded operation histories (profile "sethist") over a pool of 2-4 FlatSets of one family (3 element categories; underlying '
                     'amc::vector / SmallVector<4> / FixedCapacityVector<12> / std::vector; two comparator types, transparent variant; comparator '
                     'mode less / greater / coarse drawn per run, sets of the second comparator type get another mode); an evaluation is one run; '
                     'distinct_nontrivial counts (type, operation, size bucket, partner) cells reached with the std::set model agreeing'),
    'C04': dict(level='exploration', jobs=sjobs('setsmall', SET_SMALL) + sjobs('sethist', SET_SMALL) + sjobs('setfault', ['ETr_small', 'ENonTr_small']), quick=[('asan', 36), ('plain20', 7)],
                thorough=[('plain', 420), ('asan', 300), ('plain20', 120)], cellprop='4',
                rule='seeded operation histories (profiles "setsmall": key domain 3-9, grow_past_N / drain / refill macros, merges and comparisons '
                     'between sets of different N, comparator type and backing; "sethist") over a pool of SmallSets (N in {1,2,3,5}, std::set and '
                     'FlatSet backing); distinct_nontrivial counts (type, operation, |content|, state inline/large, crosses-boundary?, partner state) cells'),
    'C11': dict(level='exploration', jobs=sjobs('setsmall', SET_SMALL), quick=('asan', 40), thorough=[('plain', 420), ('asan', 300)], cellprop='11',
                rule='SmallSet histories with full forward and reverse walks after every step, erase(position) at every position including the last '
                     'element of a large set, bounded erase-while-iterating loops; returned iterators are matched against a fresh walk before any '
                     'dereference; distinct_nontrivial counts (type, operation, |content|, state, crosses-boundary?, iterator class end/element) cells'),
    'C19': dict(level='exploration', jobs=sjobs('setcmp', SET_FLAT) + sjobs('setsmall', SET_SMALL), quick=[('plain', 22), ('asan', 12)], thorough=[('plain', 420), ('asan', 120)],
                thorough_profile_map={'setcmp': 'setcmp_big'}, cellprop='19',
                rule='comparator-seam call counter on every lookup / position search of FlatSet histories with bulk-built sets of up to 1024 (quick) / '
                     '4096 (thorough) elements, hinted insertion with the correct hint computed from the model half of the time, and on inline '
                     'SmallSet lookups; distinct_nontrivial counts (type, call, size bucket, comparator calls used) cells'),
    'C05': dict(level='exploration', jobs=vjobs('inline', VEC_ALL) + sjobs('setinline', SET_SMALL), quick=('asan', 40), thorough=[('plain', 420), ('asan', 240)], cellprop='5',
                rule=HIST_RULE % ('inline: sizes biased to stay within N, heavy copy/move/swap/ctor between containers',
                                  '(type, operation kind, state class) cells executed while the inline promise was in force')),
    'C06': dict(level='exploration', jobs=vjobs('hist', VEC_ALL) + vjobs('inline', VEC_SMALL) + sjobs('sethist', SET_FLAT + SET_SMALL) + vjobs('fault', ['ETriv_mixed', 'ETr_basic', 'ENonTr_mixed', 'ETriv_basic', 'ETr_limits']) + sjobs('setfault', ['ETriv_small', 'ETr_flat']), quick=('asan', 40),
                thorough=[('plain', 420), ('asan', 300)], cellprop='1',
                rule=HIST_RULE % ('hist/inline under 4 allocator kinds (amc wrapper over simulated basic allocator, std-like exact-count, std-like '
                                  'with reallocate, default amc::allocator over wrapped malloc)', '(type, operation, state classes, outcome) cells '
                                  'reached with the allocator ledger consistent')),
    'C07': dict(level='exploration', jobs=vjobs('hist', VEC_ALL), quick=('asan', 40), thorough=[('plain', 420), ('asan', 300)], cellprop='1',
                rule=HIST_RULE % ('hist', '(type, operation, state classes, outcome) cells reached with data()/capacity()/element addresses observed '
                                          'before and after the step')),
    'C08': dict(level='exploration', jobs=vjobs('limit', VEC_LIMITS), quick=('asan', 40), thorough=[('plain', 420), ('asan', 240)], cellprop='8',
                rule=HIST_RULE % ('limit: fill_to_limit_minus(k) then every growing operation around the boundary',
                                  '(type, operation, distance to limit, count/position class, exception class) cells where a capacity-limit '
                                  'error was expected and checked')),
    'C09': dict(level='fault_enumeration', jobs=vjobs('scenario', VEC_HOOKS + ['ETriv_basic', 'ETriv_mixed', 'PairTN_basic', 'Nest_basic']) + vjobs('fault', VEC_HOOKS + ['ETriv_mixed', 'PairNT_basic', 'Str_basic']) + sjobs('scenario', SET_HOOKS) + sjobs('setfault', SET_HOOKS),
                quick=[('asan', 42), ('plain14', 10)], thorough=[('plain', 600), ('asan', 300), ('plain14', 180), ('asan14', 120)], cellprop='9',
                rule='mode A: a scenario (pool, prefix history of 0-12 operations, one final operation) is drawn by seed and its final operation is '
                     'executed once per fault index k=0,1,2,... for each fault kind (element throw, allocator failure) until an execution completes '
                     'without the fault firing, i.e. every throw point of that operation is visited; mode B: histories (profile "fault") where '
                     'about one operation in seven carries an attached fault. An evaluation is one execution; distinct_nontrivial counts '
                     '(type, operation, state class, fault kind, fault index bucket, strong/basic) cells in which a fault actually fired'),
    'C10': dict(level='exploration', jobs=vjobs('alias', VEC_ALL) + vjobs('hist', VEC_ALL[:4]), quick=('asan', 40), thorough=[('plain', 420), ('asan', 240)],
                cellprop='10',
                rule=HIST_RULE % ('alias: micro histories (build, optional spare capacity, one call whose value argument is an element of the vector)',
                                  '(type, operation, size, position, source index, count, grows?) cells')),
    'C13': dict(level='exploration', jobs=vjobs('swap2', VEC_ALL), quick=('asan', 40), thorough=[('plain', 420), ('asan', 240)], cellprop='13',
                rule=HIST_RULE % ('swap2: operand states steered by macro operations, swap2 between any two pool members, interleaved with '
                                  'ordinary operations', '(ordered type pair, state class pair, outcome) cells')),
    'C14': dict(level='exploration', jobs=vjobs('reloc', VEC_ALL + VEC_EXOTIC) + sjobs('setreloc', SET_FLAT + SET_SMALL), quick=[('asan', 42), ('plain20', 8)], thorough=[('plain', 420), ('asan', 240), ('plain20', 120)], cellprop='14',
                rule=HIST_RULE % ('reloc: "memcpy the container object to a fresh address, scribble and free the old bytes" as a generated operation',
                                  '(type, state class at relocation) and (type, state class, following operation) cells')),
    'C18': dict(level='exploration', jobs=vjobs('growth', [f for f in VEC_ALL]) + vjobs('hist', ['ETriv_basic', 'ETr_mixed', 'ENonTr_basic', 'ENonTrX_mixed', 'ETr_limits']) + vjobs('growth_huge', ['ETrivB_overlap', 'ETrivS_overlap']), quick=('plain', 34),
                thorough=[('plain', 300)], thorough_profile_map={'growth': 'growth_big'}, cellprop='18',
                rule=HIST_RULE % ('growth: start state by a short history, then n single appends (n up to 1200 quick / 5000 thorough), reserve and '
                                  'shrink_to_fit', '(type, start state class, n bucket, number of reallocations) cells')),
}


def _c15_runner(prop, tier, seed, seconds):
    import c15
    return c15.run(prop, tier, seed, seconds)


CHECKS['C15'] = dict(level='fault_enumeration', runner=_c15_runner, engine='memalgo')


def _c16_runner(prop, tier, seed, seconds):
    import c16
    return c16.run(prop, tier, seed, seconds)


CHECKS['C16'] = dict(level='exploration', runner=_c16_runner, engine='portable')


def _c20_runner(prop, tier, seed, seconds):
    import c20
    return c20.run(prop, tier, seed, seconds)


CHECKS['C20'] = dict(level='exploration', runner=_c20_runner, engine='sched')


def prop_spec(prop):
    return CHECKS[prop]


def aggregate_evidence(prop, spec, tier, seed, searches, wall, nviol, known, extra=None):
    stats = {}
    for s in searches:
        merge_stats(stats, {k: v for k, v in s.stats.items() if k != 'cells'})
        for p, cells in s.stats.get('cells', {}).items():
            stats.setdefault('cells', {}).setdefault(p, set()).update(cells)
    cells = stats.get('cells', {})
    cellprop = spec.get('cellprop')
    distinct = len(cells.get(cellprop, ())) if cellprop else 0
    runs = int(stats.get('runs', 0))
    secs = max(wall, 1e-9)
    cov = {
        'evaluations': max(runs, 1),
        'distinct_nontrivial': max(distinct, 0),
        'rule': spec['rule'],
        'samples': (extra or {}).get('samples', []),
        'runs_per_hour': int(runs / secs * 3600),
        'simulated_time': {'operations': int(stats.get('ops', 0)), 'noop_operations': int(stats.get('noops', 0)),
                           'allocator_events': int(stats.get('alloc_events', 0)), 'element_events': int(stats.get('elem_events', 0)),
                           'comparator_calls': int(stats.get('cmp_calls', 0))},
        'faults_fired': {'element_throw': int(stats.get('faults_fired_elem', 0)), 'allocator_failure': int(stats.get('faults_fired_alloc', 0)),
                         'capacity_limit_errors': int(stats.get('limit_throws', 0)), 'attached': int(stats.get('faults_attached', 0))},
        'environment_decisions': {'realloc_moved': int(stats.get('realloc_moved', 0)), 'realloc_in_place': int(stats.get('realloc_in_place', 0)),
                                  'freed_block_reused': int(stats.get('block_reused', 0))},
        'distinct_transcript_hashes_sum_over_workers': int(stats.get('distinct_hashes', 0)),
        'cells_per_property': {('C%02d' % int(p)): len(c) for p, c in sorted(cells.items(), key=lambda kv: int(kv[0]))},
        'probes': stats.get('probes', {}),
        'operations_by_kind': stats.get('op_kinds', {}),
        'fired_faults_by_operation': stats.get('fired_by_op', {}),
        'budget': {'mode': 'fixed number of runs per job (driver/rates.json x nominal seconds x %g); the wall clock is only a cap (%gx nominal)' % (FACTOR, CAP_FACTOR),
                   'planned_runs': sum(s.planned for s in searches), 'completed_runs': sum(s.completed for s in searches),
                   'slices_cut_by_time_cap': sum(len(s.capped) for s in searches),
                   'jobs_without_calibrated_rate': sorted(set(j for s in searches for j in s.uncalibrated))},
        'worker_crashes': sum(s.crashes for s in searches),
        'builds': [s.variant for s in searches],
        'components': {'real': ['all of /repo/include/amc/*.hpp (compiled into the harness TUs)', 'amc::BasicAllocatorWrapper and SimpleAllocator',
                                'libstdc++ std::set/std::vector when used as backing containers'],
                       'stubbed': ['byte allocator (SimHeap)', 'element types (ledger)', 'comparators', 'range-source iterators', 'thread scheduling']},
        'known_findings_hit': sorted(known.keys()) if known else [],
    }
    if extra:
        for k, v in extra.items():
            if k != 'samples':
                cov[k] = v
    ev = {
        'property_id': prop, 'tier': tier, 'seed': seed, 'level': spec['level'], 'coverage': cov,
        'assumptions': spec.get('assumptions', []) + [
            'sampling of seeds, not enumeration: a clean batch is evidence, not proof',
            'only the compiled configuration set (listed by `sim list`) is explored',
            'element moves never throw; comparators never throw; allocators of one run compare equal'],
        'wall_s': round(wall, 2), 'violations': nviol,
    }
    os.makedirs(EVIDENCE, exist_ok=True)
    tmp = os.path.join(EVIDENCE, prop + '.json.tmp')
    with open(tmp, 'w') as f:
        json.dump(ev, f, indent=1, sort_keys=True)
    os.replace(tmp, os.path.join(EVIDENCE, prop + '.json'))
    return ev


def sample_plans(binary, jobs, seed, n=3):
    out = []
    for (engine, family, profile) in jobs[:n]:
        if profile == 'scenario':
            args = ['plan', engine, family, 'scenario', str(seed * 1000 + 7), '1:0']
        else:
            args = ['plan', engine, family, profile, str(seed * 1000 + 7)]
        rc, txt = sim_cmd(binary, args)
        if rc == 0:
            ops = [l for l in txt.splitlines() if l.startswith(('config', 'pool', 'op '))]
            out.append({'family': family, 'profile': profile, 'plan': ops[:14]})
    return out


def tier_jobs(spec, tier):
    jobs = spec['jobs']
    if tier == 'thorough' and spec.get('thorough_profile'):
        jobs = [(e, f, spec['thorough_profile'] if p != 'scenario' else p) for (e, f, p) in jobs]
    if tier == 'thorough':
        # long variants of the history profiles: longer histories and larger containers on top of the quick-tier jobs
        LONG = {'hist', 'fault', 'inline', 'reloc', 'swap2', 'limit', 'sethist', 'setsmall', 'setfault', 'setreloc', 'setinline'}
        jobs = jobs + [(e, f, p + '_long') for (e, f, p) in jobs if p in LONG]
    if tier == 'thorough' and spec.get('thorough_profile_map'):
        jobs = [(e, f, spec['thorough_profile_map'].get(p, p)) for (e, f, p) in jobs]
    return jobs


def variant_jobs(jobs, variant):
    # pre-C++17: no aligned operator new, so the standard containers the harness uses as range sources cannot hold the over-aligned element
    return [j for j in jobs if j[0] == 'vec' and j[1] != 'Align_basic'] if VARIANTS[variant].get('vec_only') else jobs


def tier_phases(spec, tier):
    return (spec['quick'] if isinstance(spec['quick'], list) else [spec['quick']]) if tier == 'quick' else spec['thorough']


def calibrate(seconds=5.0, only=None):
    """Measures, per build variant, the rate (runs per second) of one worker on every job any check uses while NOMINAL_WORKERS
    workers are busy, and writes driver/rates.json.  Only the duration of the checks depends on these numbers, never a verdict."""
    need = {}
    for prop, spec in CHECKS.items():
        if 'jobs' not in spec:
            continue
        for tier in ('quick', 'thorough'):
            for (variant, _) in tier_phases(spec, tier):
                need.setdefault(variant, set()).update(variant_jobs(tier_jobs(spec, tier), variant))
            if tier == 'quick':  # self-tests replace the sanitizer build of the quick tier by the plain one
                for (variant, _) in tier_phases(spec, tier):
                    if variant.startswith('asan'):
                        v2 = 'plain' + ('14' if variant.endswith('14') else '')
                        need.setdefault(v2, set()).update(variant_jobs(tier_jobs(spec, tier), v2))
    table = dict(rates()) if only else {}
    for variant in sorted(need):
        if only and variant not in only:
            continue
        binary = build(variant)
        jobs = sorted(need[variant])
        t0 = time.time()

        def one(job):
            engine, family, profile = job
            if profile == 'scenario':
                cmd = [binary, 'enum', engine, family, '12345', '0', '1000000000', '%.1f' % seconds, '1']
            else:
                cmd = [binary, 'run', engine, family, profile, '12345', '0', '1000000000', '%.1f' % seconds, '1']
            r = subprocess.run(cmd, stdout=subprocess.PIPE, stderr=subprocess.STDOUT, text=True, errors='replace')
            m = re.search(r'^DONE runs=(\d+)', r.stdout, re.M)
            ms = re.search(r'"secs":([0-9.eE+-]+)', r.stdout)
            if not m or not ms:
                return job, None
            return job, int(m.group(1)) / max(float(ms.group(1)), 1e-3)

        with cf.ThreadPoolExecutor(NOMINAL_WORKERS) as ex:
            res = list(ex.map(one, jobs))
        table[variant] = {}
        for job, rate in res:
            if rate is None:
                log('calibrate: %s %s gave no rate (worker died); default used' % (variant, job_key(job)))
                continue
            table[variant][job_key(job)] = round(rate, 1)
        log('[calibrate] %s: %d jobs in %.0fs' % (variant, len(jobs), time.time() - t0))
    with open(RATES_FILE, 'w') as f:
        json.dump(table, f, indent=0, sort_keys=True)
        f.write('\n')
    log('wrote ' + RATES_FILE)
    return 0


def run_sim_check(prop, tier, seed, seconds_override=None):
    spec = CHECKS[prop]
    t0 = time.time()
    phases = tier_phases(spec, tier)
    if tier == 'quick' and os.environ.get('VERIF_QUICK_VARIANT'):
        # self-tests: replace the sanitizer build by the plain one (same language standard), keep the other phases
        phases = [((os.environ['VERIF_QUICK_VARIANT'] + ('14' if v.endswith('14') else '')) if v.startswith('asan') else v, secs) for (v, secs) in phases]
    if seconds_override:
        tot = float(sum(sec for (_, sec) in phases))
        phases = [(v, max(3.0, seconds_override * sec / tot)) for (v, sec) in phases]
    binaries = {}
    searches = []
    jobs = tier_jobs(spec, tier)
    for (variant, seconds) in phases:
        binaries[variant] = build(variant)
    for (variant, seconds) in phases:
        workers = NPROC  # measured here: 16 sanitizer workers execute ~1.6x the runs of 8 on the 16 cores
        s = Search(binaries[variant], variant, seed, seconds, workers)
        s.run(variant_jobs(jobs, variant))
        searches.append(s)
    cands = [c for s in searches for c in s.cands]
    faults = [f for s in searches for f in s.harness_faults]
    violations, known, tf = triage(prop, cands, binaries)
    faults += tf
    others = {}
    for c in cands:
        if prop not in c.props:
            others.setdefault((','.join(c.props), c.kind, c.opkind), []).append(c)
    for (props, kind, opkind), lst in sorted(others.items(), key=lambda kv: -len(kv[1]))[:12]:
        log('NOTE other-property props=%s kind=%s op=%s occurrences=%d e.g. family=%s seed=%d: %s' % (props, kind, opkind, len(lst), lst[0].family, lst[0].seed, lst[0].what[:160]))
    for desc, hits in sorted(known.items()):
        log('KNOWN-FINDING: property=%s %s [%d signature group(s), e.g. %s]' % (prop, desc, len(hits), hits[0][0]))
    for (rep, what, c) in violations:
        log('VIOLATION property=%s replay=%s' % (prop, rep or 'none'))
        log('  ' + what)
    for f in faults:
        log('HARNESS-FAULT ' + f)
    for s in searches:
        if s.capped:
            log('NOTE time cap: phase %s stopped %d slice(s) before their planned runs (%d of %d runs done); this machine is more than %gx slower than the '
                'reference the run counts were sized on' % (s.variant, len(s.capped), s.completed, s.planned, CAP_FACTOR / FACTOR))
        if s.uncalibrated:
            log('NOTE no calibrated rate for %d job(s) of phase %s (default used; run bin/check calibrate): %s' % (len(s.uncalibrated), s.variant, ' '.join(s.uncalibrated[:4])))
    wall = time.time() - t0
    extra = {'samples': sample_plans(binaries[phases[0][0]], jobs, seed)}
    ev = aggregate_evidence(prop, spec, tier, seed, searches, wall, len(violations), known, extra)
    log('[%s] tier=%s seed=%d runs=%d (planned %d) ops=%d cells=%d violations=%d known=%d other-property-notes=%d wall=%.0fs' % (
        prop, tier, seed, ev['coverage']['evaluations'], sum(s.planned for s in searches), ev['coverage']['simulated_time']['operations'], ev['coverage']['distinct_nontrivial'],
        len(violations), len(known), len(others), wall))
    if violations:
        return 1
    if faults:
        return 2
    return 0


def cmd_replay(path):
    txt = open(path).read()
    if txt.startswith('amcsim-memalgo'):
        import c15
        return c15.replay(path)
    if txt.startswith('amcsim-portable'):
        import c16
        return c16.replay(path)
    if txt.startswith('amcsim-sched'):
        import c20
        return c20.replay(path)
    m = re.search(r'^expect (\S+) (\S+) (\S+)', txt, re.M)
    variant = 'asan' if ('CRASH' in txt and os.environ.get('VERIF_REPLAY_VARIANT') is None) else os.environ.get('VERIF_REPLAY_VARIANT', 'plain')
    vm = re.search(r'^variant (\S+)', txt, re.M)
    if vm and vm.group(1) in VARIANTS and os.environ.get('VERIF_REPLAY_VARIANT') is None:
        variant = vm.group(1)  # the build the violation was found in (language standard, sanitizer)
    binary = build(variant)
    outs = []
    for _ in range(2):
        rc, o = sim_cmd(binary, ['exec', path, '-t'])
        outs.append((rc, o))
    log(outs[0][1][-4000:])
    r0 = re.search(r'RESULT .*', outs[0][1])
    r1 = re.search(r'RESULT .*', outs[1][1])
    if (r0 and r0.group(0)) != (r1 and r1.group(0)):
        log('HARNESS-FAULT replay not deterministic')
        return 2
    props = m.group(2) if m else '?'
    if not m and r0:
        pm = re.search(r'props=(\S+)', r0.group(0))
        props = pm.group(1) if pm else '?'
    cm = CRASH_RE.search(outs[0][1])
    if not m and cm:
        props = cm.group(7)
    viol = (r0 and 'kind=NONE' not in r0.group(0)) or cm
    if viol:
        for p in props.split(','):
            log('VIOLATION property=%s replay=%s' % (p, path))
        return 1
    log('NOT-REPRODUCED %s' % path)
    return 0


def main(argv):
    if not argv:
        print(__doc__)
        return 2
    cmd = argv[0]
    tier = os.environ.get('VERIF_TIER', 'quick')
    seconds = None
    i = 1
    rest = []
    while i < len(argv):
        if argv[i] == '--tier':
            tier = argv[i + 1]; i += 2
        elif argv[i] == '--seconds':
            seconds = float(argv[i + 1]); i += 2
        else:
            rest.append(argv[i]); i += 1
    seed = int(os.environ.get('VERIF_SEED', '1'))
    try:
        if cmd == 'build':
            for v in (rest or ['plain', 'asan', 'plain14', 'plain20']):
                if v == 'aux':
                    import c15, c16, c20
                    with cf.ThreadPoolExecutor(NPROC) as ex:
                        list(ex.map(lambda b: c15.build_one(*b), c15.builds('quick')))
                        list(ex.map(c16.build_one, c16.QUICK))
                    c20.build()
                else:
                    build(v)
            return 0
        if cmd == 'calibrate':
            return calibrate(float(rest[0]) if rest else 5.0, rest[1:] or None)
        if cmd == 'manifest':
            import manifestgen
            log('wrote ' + manifestgen.generate())
            return 0
        if cmd == 'replay':
            return cmd_replay(rest[0])
        if cmd == 'selftest':
            import selftest
            return selftest.main(rest, tier, seed)
        if cmd == 'all':
            rc = 0
            for p in sorted(CHECKS):
                rc = max(rc, main([p, '--tier', tier]))
            return rc
        if re.match(r'^C\d\d$', cmd):
            if cmd not in CHECKS:
                log('property %s is not claimed (see MANIFEST.json not_applicable)' % cmd)
                return 2
            log('VERIF_SEED=%d tier=%s property=%s repo=%s' % (seed, tier, cmd, REPO))
            spec = CHECKS[cmd]
            if 'runner' in spec:
                return spec['runner'](cmd, tier, seed, seconds)
            return run_sim_check(cmd, tier, seed, seconds)
    except BuildFailure as e:
        log('HARNESS-FAULT build failure (cannot decide): ' + str(e))
        return 2
    except HarnessFault as e:
        log('HARNESS-FAULT ' + str(e))
        return 2
    print(__doc__)
    return 2
