"""C20: concurrent const access is race-free -- seeded one-operation-at-a-time scheduler over real threads under ThreadSanitizer."""
import concurrent.futures as cf
import json
import os
import re
import subprocess
import tempfile
import threading
import time

import amcdriver as D

RULE = ('one run = one seed = one container (24 kinds: vector with amc::allocator / std::allocator / 64-bit size_type, SmallVector inline/heap, '
        'FixedCapacityVector, FlatSet over vector / SmallVector / FixedCapacityVector with std::less<T> and the transparent std::less<>, SmallSet over '
        'std::set / FlatSet in inline and large state; class and int elements), 2-6 reader threads calling const operations on it (size, iteration, '
        'element access, lookups incl. heterogeneous keys, bounds, comparisons, copy / range construction, key_comp) and 0-3 writer threads mutating '
        'two containers of their own (push/insert/erase/assign/swap/move/merge/extract/bulk insert/swap2, copy-assignment from the shared one), each '
        'with a seeded script of 3-20 operations, released one operation at a time in a seeded order; ThreadSanitizer judges the '
        'operations as concurrent because the scheduler hand-offs are excluded from its happens-before tracking; an evaluation is one run; '
        'distinct_nontrivial counts the distinct (container kind, hash of reader/writer counts + every thread script + release order) values among the runs that interleaved at least two operations, as printed by the workers')
TSAN_ENV = 'halt_on_error=0 exitcode=0 report_signal_unsafe=0 history_size=4 second_deadlock_stack=0'


def build():
    src = [os.path.join(D.ROOT, 'sim', 'x_sched.cpp')]
    return D.build_aux('sched', src, 'clang++', ['-std=c++17', '-O1', '-g', '-fsanitize=thread'], ['-lpthread'])


def parse_reports(err_text):
    """Returns list of (run index, in_footprint, mentions_amc, summary)."""
    out = []
    run = None
    foot = []
    lines = err_text.splitlines()
    i = 0
    while i < len(lines):
        l = lines[i]
        m = re.match(r'RUN (\d+) seed (\d+)', l)
        if m:
            run = int(m.group(1)); foot = []
        m = re.match(r'FOOTPRINT (0x[0-9a-f]+) (\d+)', l)
        if m:
            foot.append((int(m.group(1), 16), int(m.group(2))))
        if 'WARNING: ThreadSanitizer' in l:
            block = []
            j = i
            while j < len(lines) and not (j > i and lines[j].startswith('==================')):
                block.append(lines[j]); j += 1
            text = '\n'.join(block)
            am = re.search(r'(?:Write|Read|Atomic write|Atomic read|Previous write|Previous read) of size (\d+) at (0x[0-9a-f]+)', text)
            addr = int(am.group(2), 16) if am else 0
            infoot = any(lo <= addr < lo + n for lo, n in foot)
            kind = re.search(r'ThreadSanitizer: ([^(]+)', l)
            first_frame = next((b.strip()[:200] for b in block if re.match(r'\s+#0 ', b)), '')
            out.append((run, infoot, ' amc::' in text, '%s at %s; %s' % (kind.group(1).strip() if kind else 'report', hex(addr), first_frame)))
            i = j
            continue
        i += 1
    return out


def run(prop, tier, seed, seconds):
    t0 = time.time()
    binary = build()
    # a fixed number of schedules (run indices 0..total-1, dealt to 64 worker processes by stride): what is explored depends on
    # (VERIF_SEED, tier) only; the wall clock is a cap (4x the time the runs take on the reference sandbox)
    nominal = 25 if tier == 'quick' else 420
    total = 14000 if tier == 'quick' else 240000
    if seconds:
        total = max(64, int(total * seconds / nominal))
        nominal = seconds
    deadline = time.time() + D.CAP_FACTOR * nominal
    workers = D.NPROC
    nslices = 64
    env = dict(os.environ, TSAN_OPTIONS=TSAN_ENV)

    sched_hashes = set()
    hlock = threading.Lock()

    def work(k):
        count = (total - k + nslices - 1) // nslices if total > k else 0
        remain = deadline - time.time()
        if count == 0 or remain < 0.5:
            return ({'runs': 0, 'ops': 0, 'kinds': {}}, [], [], 0, True, count)
        with tempfile.TemporaryFile('w+') as ef:
            r = subprocess.run([binary, 'run', str(seed), str(k), str(count), '%.1f' % remain, str(nslices)], stdout=subprocess.PIPE, stderr=ef, text=True, env=env)
            ef.seek(0)
            err = ef.read()
        stats = None
        bytes_changed = []
        for line in r.stdout.splitlines():
            if line.startswith('H '):
                f = line.split()
                if len(f) == 5 and int(f[4]) >= 2:  # at least two operations were interleaved
                    with hlock:
                        sched_hashes.add((f[2], f[3]))
            elif line.startswith('STATS '):
                stats = json.loads(line[6:])
            elif line.startswith('B '):
                bytes_changed.append(line)
        return stats, bytes_changed, parse_reports(err), r.returncode, ('DONE' in r.stdout), count

    with cf.ThreadPoolExecutor(workers) as ex:
        outs = list(ex.map(work, range(nslices)))
    runs = ops = 0
    kinds = {}
    viol, faults = [], []
    cut = 0
    for stats, changed, reports, rc, done, count in outs:
        if stats:
            runs += stats['runs']; ops += stats['ops']
            if stats['runs'] < count and done:
                cut += 1
            for k, v in stats['kinds'].items():
                kinds[k] = kinds.get(k, 0) + v
        if not done:
            faults.append('a sched worker did not finish (rc=%s)' % rc)
        for line in changed:
            viol.append((int(line.split()[1]), line))
        for (run_i, infoot, amc, summary) in reports:
            # every access the harness itself shares between threads is excluded from TSan (IGN regions), so any report comes from
            # container code (its objects, its buffers, or static storage it introduced); the footprint / frame test only labels it
            where = ' [address inside the shared container]' if infoot else (' [amc frame]' if amc else ' [static or other storage reached from the container operations]')
            viol.append((run_i, 'ThreadSanitizer: ' + summary + where))
    known = D.load_known()
    nviol = 0
    seen = set()
    os.makedirs(D.REPLAYS, exist_ok=True)
    more = 0
    for (run_i, what) in sorted(viol, key=lambda v: (v[0] is None, v[0])):
        key = re.sub(r'0x[0-9a-f]+', '0x?', re.sub(r'^B \d+ ', 'B ', what))[:120]
        if key in seen:
            continue
        seen.add(key)
        hit = None
        for (p, rx, desc) in known:
            if p == prop and rx.search(what):
                hit = desc
        if not hit and nviol >= 16:
            more += 1  # the first 16 distinct unlisted reports get a replay file each; the rest are only counted
            continue
        rep = os.path.join(D.REPLAYS, 'C20-%d-%s.replay' % (seed, run_i))
        sched = subprocess.run([binary, 'one', str(seed), str(run_i), '-v'], stdout=subprocess.PIPE, stderr=subprocess.DEVNULL, text=True, env=env).stdout
        with open(rep, 'w') as f:
            f.write('amcsim-sched v1\nseedbase %d\nindex %s\n%s\nexpect %s\n' % (seed, run_i, sched.strip(), what[:300]))
        if hit:
            D.log('KNOWN-FINDING: property=%s %s' % (prop, hit))
        else:
            nviol += 1
            D.log('VIOLATION property=%s replay=%s' % (prop, rep))
            D.log('  ' + what[:400])
    if more:
        D.log('NOTE %d further distinct unlisted report(s) of the same run not written out (the first 16 are reported above)' % more)
    for f in faults[:5]:
        D.log('HARNESS-FAULT ' + f[:400])
    wall = time.time() - t0
    sample = subprocess.run([binary, 'one', str(seed), '0', '-v'], stdout=subprocess.PIPE, stderr=subprocess.DEVNULL, text=True, env=env).stdout.strip().splitlines()
    if cut:
        D.log('NOTE time cap: %d of %d worker(s) stopped before their planned schedules (%d of %d done)' % (cut, nslices, runs, total))
    cov = {'evaluations': max(runs, 1), 'distinct_nontrivial': len(sched_hashes),
           'budget': {'mode': 'fixed number of schedules; the wall clock is only a cap', 'planned_runs': total, 'completed_runs': runs, 'slices_cut_by_time_cap': cut}, 'rule': RULE, 'samples': [{'seedbase': seed, 'index': 0, 'run': sample}],
           'operations': ops, 'container_kinds': kinds, 'runs_per_hour': int(runs / max(wall, 1e-9) * 3600),
           'fault_kinds_injected': {'none': 'the only nondeterminism this property depends on is the thread schedule, which the simulator decides'},
           'components': {'real': ['amc containers with the real amc::allocator (malloc)', 'std::thread / pthreads', 'ThreadSanitizer runtime'],
                          'stubbed': ['which thread runs next (seeded scheduler)']}}
    D.write_evidence(prop, 'exploration', tier, seed, cov,
                     ['interleaving at operation granularity: sufficient for happens-before race detection of unsynchronised accesses; amc has no atomics',
                      'TSan keeps a bounded access history per memory cell; varying the schedule is what keeps a rare write next to a foreign read',
                      'reports are attributed by racing address (footprint of the shared container) or amc:: frames; anything else is a harness fault'], wall, nviol)
    D.log('[%s] tier=%s seed=%d runs=%d (planned %d) operations=%d violations=%d wall=%.0fs' % (prop, tier, seed, runs, total, ops, nviol, wall))
    if nviol:
        return 1
    return 2 if faults else 0


def replay(path):
    txt = open(path).read()
    base = int(re.search(r'^seedbase (\d+)', txt, re.M).group(1))
    idx = re.search(r'^index (\S+)', txt, re.M).group(1)
    binary = build()
    env = dict(os.environ, TSAN_OPTIONS=TSAN_ENV)
    verdicts = []
    for _ in range(2):
        with tempfile.TemporaryFile('w+') as ef:
            r = subprocess.run([binary, 'one', str(base), idx, '-v'], stdout=subprocess.PIPE, stderr=ef, text=True, env=env)
            ef.seek(0)
            reps = parse_reports(ef.read())
        verdicts.append(len(reps) > 0 or 'bytes_changed=1' in r.stdout)
        D.log(r.stdout.strip()[:1000])
    if verdicts[0] != verdicts[1]:
        D.log('HARNESS-FAULT replay verdict not repeatable')
        return 2
    if verdicts[0]:
        D.log('VIOLATION property=C20 replay=%s' % path)
        return 1
    D.log('NOT-REPRODUCED %s' % path)
    return 0
