"""C15: amc:: memory algorithms vs a reference implementation, every throw index, four language standards."""
import concurrent.futures as cf
import json
import os
import re
import subprocess
import time

import amcdriver as D

STDS = ['11', '14', '17', '20']
OPTS = {
    'O0': (['-O0', '-g0'], []),
    'O2': (['-O2', '-g0', '-DNDEBUG'], []),
    'san': (['-O1', '-g', '-fsanitize=address,undefined', '-fno-sanitize-recover=all', '-DSIM_SANITIZE'], ['-fsanitize=address,undefined']),
}
RULE = ('a case = (algorithm in 19 x range length 0..6 x iterator kind {pointer, const pointer, contiguous random access, bidirectional, forward, '
        'move_iterator, single-pass input stream, reverse_iterator over pointers, strided (non-contiguous) random access; destination through a '
        'reverse_iterator / forward / random-access wrapper} x value category {trivial, declared trivially relocatable, non-relocatable with '
        'identity ledger, throwing-move, aggregate without user-provided default constructor, trivial constructor with user-provided assignment}) drawn by seed; for each '
        'case the fault-free execution and then every throw index k=0,1,2,... (until no fault fires) are executed; an evaluation is one execution; '
        'distinct_nontrivial counts distinct (algorithm, length, iterator kind, value category) cells, summed over the builds that ran them')


def builds(tier):
    opts = ['O0', 'O2', 'san'] if tier == 'thorough' else ['O0', 'O2', 'san']
    return [(s, o) for s in STDS for o in opts]


def build_one(std, opt):
    flags, ld = OPTS[opt]
    name = 'memalgo_%s_%s' % (std, opt)
    src = [os.path.join(D.ROOT, 'sim', 'x_memalgo.cpp'), os.path.join(D.ROOT, 'sim', 'simheap.cpp')]
    return D.build_aux(name, src, 'g++', ['-std=c++' + std, '-DSIM_STD_NAME="c++%s/%s"' % (std, opt)] + flags, ld)


V_RE = re.compile(r'^V std=(\S+) case=(\S+) (\d+) (\S+) (\S+) (-?\d+) what=(.*)$')
C_RE = re.compile(r'CRASH class=(\S+) signal=(\d+) std=(\S+) case=(\S+) (\d+) (\S+) (\S+) (-?\d+)')


def run(prop, tier, seed, seconds):
    t0 = time.time()
    blist = builds(tier)
    with cf.ThreadPoolExecutor(D.NPROC) as ex:
        bins = dict(zip(blist, ex.map(lambda b: build_one(*b), blist)))
    # a fixed number of cases per build (what is explored depends on (VERIF_SEED, tier) only); the wall clock is a cap
    nominal = 20 if tier == 'quick' else 240
    count = 400000 if tier == 'quick' else 5000000
    if seconds:
        count = max(1000, int(count * seconds / nominal))
        nominal = seconds
    budget = D.CAP_FACTOR * nominal
    results = {}

    def work(b):
        std, opt = b
        cmd = [bins[b], 'run', str(seed), '0', str(count), '%.1f' % budget, '1']
        vs, stats, crash, start = [], None, [], 0
        # restart after a crash / hang past the offending case is not possible by index (cases are independent): record and stop
        r = subprocess.run(cmd, stdout=subprocess.PIPE, stderr=subprocess.STDOUT, text=True, errors='replace')
        for line in r.stdout.splitlines():
            m = V_RE.match(line)
            if m:
                vs.append(m.groups())
            elif line.startswith('STATS '):
                stats = json.loads(line[6:])
            else:
                c = C_RE.search(line)
                if c:
                    crash.append(c.groups())
        return b, vs, stats, crash, r.returncode

    with cf.ThreadPoolExecutor(D.NPROC) as ex:
        outs = list(ex.map(work, blist))
    viol = {}
    total = dict(cases=0, executions=0, faults_fired=0, distinct_cells=0)
    per_build = {}
    faults = []
    for (b, vs, stats, crash, rc) in outs:
        tag = 'c++%s/%s' % b
        if stats:
            for k in total:
                total[k] += stats.get(k, 0)
            per_build[tag] = stats
        elif not crash:
            faults.append('memalgo %s produced no statistics (rc=%s)' % (tag, rc))
        for (std, algo, ln, it, val, k, what) in vs:
            viol.setdefault((algo, what[:80]), []).append((b, algo, ln, it, val, k, what))
        for (cls, sig, std, algo, ln, it, val, k) in crash:
            viol.setdefault((algo, cls), []).append((b, algo, ln, it, val, k, '%s (signal %s) inside %s' % (cls, sig, algo)))
    known = D.load_known()
    nviol = 0
    os.makedirs(D.REPLAYS, exist_ok=True)
    known_hit = {}
    for key, lst in sorted(viol.items()):
        lst.sort(key=lambda x: (int(x[2]), x[0]))
        (b, algo, ln, it, val, k, what) = lst[0]
        rep = os.path.join(D.REPLAYS, 'C15-%s-%s-%s-%s.replay' % (algo, b[0], b[1], val))
        with open(rep, 'w') as f:
            f.write('amcsim-memalgo v1\nstd %s\nopt %s\ncase %s %s %s %s %s\nexpect %s\n' % (b[0], b[1], algo, ln, it, val, k, what))
        sig = 'SIG engine=memalgo std=c++%s opt=%s case=%s len=%s iter=%s val=%s throw=%s what=%s' % (b[0], b[1], algo, ln, it, val, k, what)
        hit = None
        for (p, rx, desc) in known:
            if p == prop and rx.search(sig):
                hit = desc
        # gate: the case must fail again in a fresh process, twice
        ok = 0
        for _ in range(2):
            r = subprocess.run([bins[b], 'case', algo, str(ln), it, val, str(k)], stdout=subprocess.PIPE, stderr=subprocess.STDOUT, text=True, errors='replace')
            if r.returncode != 0:
                ok += 1
        if ok != 2:
            faults.append('memalgo violation did not reproduce in a fresh process: ' + sig)
            continue
        if hit:
            known_hit.setdefault(hit, []).append(rep)
        else:
            nviol += 1
            D.log('VIOLATION property=%s replay=%s' % (prop, rep))
            D.log('  %s [%d occurrence(s) over builds %s]' % (sig, len(lst), sorted(set('c++%s/%s' % x[0] for x in lst))))
    for desc, reps in known_hit.items():
        D.log('KNOWN-FINDING: property=%s %s [e.g. %s]' % (prop, desc, reps[0]))
    for f in faults:
        D.log('HARNESS-FAULT ' + f)
    wall = time.time() - t0
    cov = {
        'evaluations': max(int(total['executions']), 1),
        'distinct_nontrivial': int(total['distinct_cells']),
        'rule': RULE,
        'samples': [{'build': 'c++11/O0', 'case': 'uninitialized_copy_n 4 forward ENonTr', 'throw_indices': 'none, 0, 1, 2, 3'},
                    {'build': 'c++14/san', 'case': 'uninitialized_relocate 3 random_access EThrowMove', 'throw_indices': 'none, 0, 1, 2'}],
        'cases': int(total['cases']), 'faults_fired': {'element_throw': int(total['faults_fired'])},
        'runs_per_hour': int(total['executions'] / max(wall, 1e-9) * 3600),
        'builds': per_build,
        'components': {'real': ['/repo/include/amc/memory.hpp in each language standard (the std:: algorithms it aliases in C++17/20 included)'],
                       'stubbed': ['element types (ledger)', 'raw memory (SimHeap with red zones)', 'iterator wrappers of each category']},
        'known_findings_hit': sorted(known_hit),
        'budget': {'mode': 'fixed number of cases per build; the wall clock is only a cap', 'planned_cases_per_build': count,
                   'builds_cut_by_time_cap': sorted(t for t, st in per_build.items() if st.get('secs', 0) >= budget)},
    }
    D.write_evidence(prop, 'fault_enumeration', tier, seed, cov,
                     ['cases are sampled by seed; within a case every throw index is enumerated',
                      'the reference expectations are those of the C++17/20 standard algorithms (checked against the std:: ones in the 17/20 builds)',
                      'a hang is detected by a 10 s alarm per execution'], wall, nviol)
    D.log('[%s] tier=%s seed=%d builds=%d cases=%d executions=%d faults_fired=%d violations=%d known=%d wall=%.0fs' % (
        prop, tier, seed, len(blist), total['cases'], total['executions'], total['faults_fired'], nviol, len(known_hit), wall))
    if nviol:
        return 1
    return 2 if faults else 0


def replay(path):
    txt = open(path).read()
    std = re.search(r'^std (\S+)', txt, re.M).group(1)
    opt = re.search(r'^opt (\S+)', txt, re.M).group(1)
    case = re.search(r'^case (.*)$', txt, re.M).group(1).split()
    binary = build_one(std, opt)
    outs = []
    for _ in range(2):
        r = subprocess.run([binary, 'case'] + case, stdout=subprocess.PIPE, stderr=subprocess.STDOUT, text=True, errors='replace')
        outs.append((r.returncode, r.stdout))
    D.log(outs[0][1][-2000:])
    if outs[0][0] != outs[1][0]:
        D.log('HARNESS-FAULT replay not deterministic')
        return 2
    if outs[0][0] != 0:
        D.log('VIOLATION property=C15 replay=%s' % path)
        return 1
    D.log('NOT-REPRODUCED %s' % path)
    return 0
