"""C16: identical transcripts of the portable profile across language standard, extras, assertions and optimisation."""
import concurrent.futures as cf
import itertools
import os
import re
import subprocess
import time

import amcdriver as D


QUICK = [('17', 'O2', 'ndebug', 'extras'), ('11', 'O0', 'assert', 'plain'), ('14', 'O2', 'assert', 'extras'), ('20', 'O0', 'ndebug', 'plain'),
         ('11', 'O2', 'ndebug', 'extras'), ('20', 'O2', 'assert', 'extras')]
ALL = list(itertools.product(['11', '14', '17', '20'], ['O0', 'O2'], ['ndebug', 'assert'], ['extras', 'plain']))
RULE = ('the portable profile (15 vector and 3 FlatSet configurations in every build, 2 SmallSet configurations from C++17 on) executes the same seeds in '
        'every build of the matrix {c++11,14,17,20} x {-O0,-O2} x {NDEBUG, assertions} x {AMC_NONSTD_FEATURES on, off}; an evaluation is one '
        '(build, configuration, seed, operation mask) script execution of 10-60 operations; distinct_nontrivial counts distinct transcript hashes '
        '(one per (configuration, seed, mask) when all builds agree)')


def bid(b):
    return 'c++%s/%s/%s/%s' % b


def flags(b):
    std, opt, dbg, ext = b
    f = ['-std=c++' + std, '-' + opt, '-g0']
    if dbg == 'ndebug':
        f.append('-DNDEBUG')
    if ext == 'extras':
        f.append('-DAMC_NONSTD_FEATURES')
    return f


def build_one(b):
    name = 'portable_%s_%s_%s_%s' % b
    src = [os.path.join(D.ROOT, 'sim', 'x_portable.cpp'), os.path.join(D.ROOT, 'sim', 'simheap.cpp')]
    return D.build_aux(name, src, 'g++', flags(b))


def run(prop, tier, seed, seconds):
    t0 = time.time()
    blist = QUICK if tier == 'quick' else ALL
    nseeds = 1500 if tier == "quick" else 3000  # thorough: 32 builds + 16 extras masks; every (configuration, seed) hash is kept for the comparison
    if seconds:
        nseeds = max(20, int(nseeds * seconds / 30))
    viol = []
    faults = []
    bins = {}

    def b1(b):
        try:
            return b, build_one(b), None
        except D.BuildFailure as e:
            return b, None, e

    with cf.ThreadPoolExecutor(D.NPROC) as ex:
        for b, path, err in ex.map(b1, blist):
            if err is not None:
                # a configuration of the matrix that no longer compiles cannot give "the same results" at all
                os.makedirs(D.REPLAYS, exist_ok=True)
                rep = os.path.join(D.REPLAYS, 'C16-build-%s.replay' % '_'.join(b))
                with open(rep, 'w') as f:
                    f.write('amcsim-portable v1\nkind build\nbuild %s\ncmd %s\nerror %s\n' % (' '.join(b), ' '.join(err.cmd or []), str(err)[-1500:].replace('\n', ' | ')))
                viol.append((rep, 'the %s configuration of the portable profile does not compile: %s' % (bid(b), str(err)[-400:].replace('\n', ' | '))))
            else:
                bins[b] = path

    def work(args):
        b, mask = args
        out = {}
        r = subprocess.run([bins[b], 'features'], stdout=subprocess.PIPE, text=True)
        feat = dict(re.findall(r'(\w+)=(\d)', r.stdout))
        r = subprocess.run([bins[b], 'run', str(seed), str(nseeds), str(mask)], stdout=subprocess.PIPE, stderr=subprocess.STDOUT, text=True, errors='replace')
        crashed = 'DONE ' not in r.stdout
        for line in r.stdout.splitlines():
            if line.startswith('H '):
                _, c, i, h, ok = line.split()
                out[(int(c), int(i))] = (h, ok == '1')
        return b, mask, feat, out, crashed, r.stdout[-400:]

    jobs = [(b, 0) for b in bins] + [(b, 1) for b in bins if b[3] == 'extras']
    with cf.ThreadPoolExecutor(D.NPROC) as ex:
        results = list(ex.map(work, jobs))
    evals = 0
    hashes = set()
    for mask in (0, 1):
        group = [(b, feat, out, crashed, tail) for (b, m, feat, out, crashed, tail) in results if m == mask]
        if not group:
            continue
        for (b, feat, out, crashed, tail) in group:
            evals += len(out)
            want_ext = '1' if b[3] == 'extras' else '0'
            if mask == 0 and any(feat.get(k) != want_ext for k in ('append', 'pop_back_val', 'swap2', 'flatset_data')):
                viol.append((None, 'build %s: the non-standard extras are %s at compile time (probes %s)' % (bid(b), 'absent although enabled' if want_ext == '1' else 'present although disabled', feat)))
            if mask == 0 and feat.get('smallset') != ('1' if int(b[0]) >= 17 else '0'):
                viol.append((None, 'build %s: SmallSet availability differs from the language level (probes %s)' % (bid(b), feat)))
            if crashed:
                viol.append((None, 'build %s crashed or hung while running the portable profile: %s' % (bid(b), tail.replace('\n', ' | '))))
            bad = [k for k, (h, ok) in out.items() if not ok]
            if bad:
                viol.append(_replay(prop, seed, mask, bad[0], b, b, bins, 'build %s disagrees with its own std::vector/std::set reference model' % bid(b)))
        ref_b, _, ref, _, _ = group[0]
        for (b, feat, out, crashed, tail) in group[1:]:
            diffs = [k for k in sorted(set(ref) & set(out)) if ref[k][0] != out[k][0]]
            if diffs:
                viol.append(_replay(prop, seed, mask, diffs[0], ref_b, b, bins, 'transcripts differ between %s and %s for %d of %d (configuration, seed) pairs' % (
                    bid(ref_b), bid(b), len(diffs), len(set(ref) & set(out)))))
            # the SmallSet configurations exist only from C++17 on: compare those builds among themselves
            for k in out:
                if k not in ref:
                    ref[k] = out[k]
        for (b, feat, out, crashed, tail) in group:
            for k, (h, ok) in out.items():
                hashes.add((mask, k, h))
    known = D.load_known()
    nviol = 0
    for (rep, what) in viol:
        hit = None
        for (p, rx, desc) in known:
            if p == prop and rx.search(what):
                hit = desc
        if hit:
            D.log('KNOWN-FINDING: property=%s %s' % (prop, hit))
        else:
            nviol += 1
            D.log('VIOLATION property=%s replay=%s' % (prop, rep or 'none'))
            D.log('  ' + what)
    wall = time.time() - t0
    cov = {'evaluations': max(evals, 1), 'distinct_nontrivial': len(hashes), 'rule': RULE,
           'samples': [{'build': bid(blist[0]), 'config': 'SmallVector<ETr,3,B>', 'seed_index': 5,
                        'transcript_tail': _dump(bins.get(blist[0]), 3, seed, 5, 0)[-3:] if bins.get(blist[0]) else []}],
           'builds': [bid(b) for b in bins], 'seeds_per_configuration': nseeds, 'operation_masks': ['standard operations', 'standard + extras (extras builds only)'],
           'runs_per_hour': int(evals / max(wall, 1e-9) * 3600),
           'components': {'real': ['all amc headers in every configuration of the matrix'], 'stubbed': ['byte allocator (SimHeap)', 'element types', 'comparator']}}
    D.write_evidence(prop, 'exploration', tier, seed, cov,
                     ['quick tier: a covering subset of 6 of the 32 builds; thorough: all 32', 'generators never violate a precondition, so assertion builds cannot abort on correct code',
                      'g++ 12 only (one compiler)'], wall, nviol)
    D.log('[%s] tier=%s seed=%d builds=%d evaluations=%d distinct_hashes=%d violations=%d wall=%.0fs' % (prop, tier, seed, len(bins), evals, len(hashes), nviol, wall))
    if nviol:
        return 1
    return 2 if faults else 0


def _dump(binary, c, seed, i, mask):
    if not binary:
        return []
    r = subprocess.run([binary, 'dump', str(c), str(seed), str(i), str(mask)], stdout=subprocess.PIPE, stderr=subprocess.STDOUT, text=True, errors='replace')
    # lines starting with '~' (allocator / element / comparator events) are diagnostics, not part of the compared transcript
    return [l for l in r.stdout.splitlines() if not l.startswith('~')]


def _replay(prop, seed, mask, key, b1, b2, bins, what):
    c, i = key
    os.makedirs(D.REPLAYS, exist_ok=True)
    rep = os.path.join(D.REPLAYS, 'C16-%d-%d-%d-%s.replay' % (c, i, mask, '_'.join(b2)))
    t1, t2 = _dump(bins[b1], c, seed, i, mask), _dump(bins[b2], c, seed, i, mask)
    first = next((n for n, (x, y) in enumerate(zip(t1, t2)) if x != y), min(len(t1), len(t2)))
    with open(rep, 'w') as f:
        f.write('amcsim-portable v1\nkind transcript\nconfig %d\nseedbase %d\nindex %d\nmask %d\nbuild1 %s\nbuild2 %s\n' % (c, seed, i, mask, ' '.join(b1), ' '.join(b2)))
        f.write('first_difference line %d\n< %s\n> %s\n' % (first, t1[first] if first < len(t1) else '(end)', t2[first] if first < len(t2) else '(end)'))
    detail = ' || first difference at step line %d: "%s" vs "%s"' % (first, (t1[first] if first < len(t1) else '(end)')[:160], (t2[first] if first < len(t2) else '(end)')[:160])
    return rep, what + detail


def replay(path):
    txt = open(path).read()
    kind = re.search(r'^kind (\S+)', txt, re.M).group(1)
    if kind == 'build':
        cmd = re.search(r'^cmd (.*)$', txt, re.M).group(1).split()
        r = subprocess.run(cmd, stdout=subprocess.PIPE, stderr=subprocess.STDOUT, text=True)
        D.log(r.stdout[-2000:])
        if r.returncode != 0:
            D.log('VIOLATION property=C16 replay=%s' % path)
            return 1
        D.log('NOT-REPRODUCED %s' % path)
        return 0
    g = lambda k: re.search(r'^%s (.*)$' % k, txt, re.M).group(1)
    c, seed, i, mask = int(g('config')), int(g('seedbase')), int(g('index')), int(g('mask'))
    b1, b2 = tuple(g('build1').split()), tuple(g('build2').split())
    t1 = _dump(build_one(b1), c, seed, i, mask)
    t2 = _dump(build_one(b2), c, seed, i, mask)
    bad = t1 != t2 or any('MODEL-MISMATCH' in l for l in t1 + t2)
    for l in t1[-6:]:
        D.log('< ' + l[:300])
    for l in t2[-6:]:
        D.log('> ' + l[:300])
    if bad:
        D.log('VIOLATION property=C16 replay=%s' % path)
        return 1
    D.log('NOT-REPRODUCED %s' % path)
    return 0
