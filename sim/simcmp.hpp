// Comparator seam: stateful, counting, "poisoned when default-constructed".
#pragma once
#include "core.hpp"
#include <cstdlib>
#include <string>

#include "elems.hpp"

namespace sim {

enum CmpMode { CM_POISON = 0, CM_LESS = 1, CM_GREATER = 2, CM_COARSE = 3 };

inline bool cmp_keys(int mode, int a, int b) {
  switch (mode) {
    case CM_GREATER: return a > b;
    case CM_COARSE: return (a >> 2) < (b >> 2);  // equivalence classes of four keys (keys are non-negative)
    default: return a < b;
  }
}

template <class E>
inline int cmp_key_of(const E &e) { return e.k(); }
inline int cmp_key_of(const KeyProbe &p) { return p.key; }
inline int cmp_key_of(const std::string &s) { return s.empty() ? 0 : atoi(s.c_str()); }  // "kkkkk:ppppppp" (see ElemIO<std::string>)

/// Tag distinguishes comparator *types* (merge between sets of different comparator types);
/// Transparent adds is_transparent (heterogeneous lookup with KeyProbe).
template <int Tag, bool Transparent>
struct SimCmpT;

template <int Tag>
struct SimCmpT<Tag, false> {
  int mode;
  SimCmpT() : mode(CM_POISON) {}
  explicit SimCmpT(int m) : mode(m) {}
  template <class A, class B>
  bool operator()(const A &a, const B &b) const {
    ++G.opCmpCalls; ++G.totCmp;
    if (mode == CM_POISON) ++G.opPoisonCmpCalls;
    return cmp_keys(mode, cmp_key_of(a), cmp_key_of(b));
  }
  // element entirely before the probe's range / the range entirely before the element (in the comparator's own order)
  template <class A>
  bool operator()(const A &a, const RangeProbe &p) const {
    ++G.opCmpCalls; ++G.totCmp;
    if (mode == CM_POISON) ++G.opPoisonCmpCalls;
    return cmp_keys(mode, cmp_key_of(a), mode == CM_GREATER ? p.hi : p.lo);
  }
  template <class B>
  bool operator()(const RangeProbe &p, const B &b) const {
    ++G.opCmpCalls; ++G.totCmp;
    if (mode == CM_POISON) ++G.opPoisonCmpCalls;
    return cmp_keys(mode, mode == CM_GREATER ? p.lo : p.hi, cmp_key_of(b));
  }
};
template <int Tag>
struct SimCmpT<Tag, true> : SimCmpT<Tag, false> {
  typedef void is_transparent;
  SimCmpT() {}
  explicit SimCmpT(int m) : SimCmpT<Tag, false>(m) {}
};

/// A comparator that is NOT trivially relocatable: it records its own address (as a comparator holding a pointer into itself
/// would) and reports every call made on an object that sits at another address than the one it was constructed at.  A set
/// with such a comparator must not declare itself trivially relocatable.
template <int Tag>
struct SimCmpSelfT {
  int mode;
  const SimCmpSelfT *self_;
  SimCmpSelfT() : mode(CM_POISON), self_(this) {}
  explicit SimCmpSelfT(int m) : mode(m), self_(this) {}
  SimCmpSelfT(const SimCmpSelfT &o) : mode(o.mode), self_(this) {}
  SimCmpSelfT &operator=(const SimCmpSelfT &o) { mode = o.mode; return *this; }
  template <class A, class B>
  bool operator()(const A &a, const B &b) const {
    ++G.opCmpCalls; ++G.totCmp;
    if (mode == CM_POISON) ++G.opPoisonCmpCalls;
    if (self_ != this) ++G.opCmpBytewise;
    return cmp_keys(mode, cmp_key_of(a), cmp_key_of(b));
  }
};

struct ModelCmp {
  typedef void is_transparent;
  int mode;
  bool operator()(const Val &a, const Val &b) const { return cmp_keys(mode, a.key, b.key); }
  bool operator()(const Val &a, const RangeProbe &p) const { return cmp_keys(mode, a.key, mode == CM_GREATER ? p.hi : p.lo); }
  bool operator()(const RangeProbe &p, const Val &b) const { return cmp_keys(mode, mode == CM_GREATER ? p.lo : p.hi, b.key); }
};

}  // namespace sim
