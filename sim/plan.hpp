// Plans: the explicit, state-independent expansion of a run seed.  Raw arguments are interpreted modulo the
// state at execution time, so deleting operations always leaves a valid plan (this is what makes ddmin work).
#pragma once
#include <cstdint>
#include <cstdio>
#include <sstream>
#include <string>
#include <vector>

#include "core.hpp"

namespace sim {

struct Op {
  int id = 0;        // stable id (position in the originally generated plan); keys environment decisions
  int kind = 0;      // engine-specific
  unsigned c = 0;    // target container (mod pool)
  unsigned d = 0;    // partner container (mod pool)
  unsigned a = 0, b = 0, n = 0;  // raw arguments
  int src = 0;       // stream kind for range arguments
  int fkind = 0;     // attached fault kind (F_NONE / F_ELEM / F_ALLOC)
  int fk = 0;        // fault index k within this operation
  int self = 0;      // binary operations: the partner is the target itself (v = v, v = std::move(v), v.swap(v))
};

struct Plan {
  std::string engine;   // vec | set
  std::string config;   // family name
  std::string profile;  // generator profile (informational once the plan is explicit)
  uint64_t seed = 0;    // run seed (informational)
  uint64_t env = 0;     // environment stream
  std::vector<unsigned> types;  // pool: type index (in the family) per slot
  unsigned cmpMode = 1;         // set engine: comparator mode
  unsigned keyDom = 8;          // key domain size
  bool noReloc = false;         // execute relocate operations as no-ops (C14 attribution)
  std::vector<Op> ops;
  // expectation recorded in replay files
  std::string expectKind, expectProps;
  std::string expectHash;
  std::string note;
};

typedef const char *(*OpNameFn)(int);
typedef int (*OpKindFn)(const std::string &);

inline std::string plan_to_text(const Plan &p, OpNameFn nameOf) {
  std::ostringstream o;
  o << "amcsim-plan v1\n";
  o << "engine " << p.engine << "\nconfig " << p.config << "\nprofile " << (p.profile.empty() ? "-" : p.profile) << "\n";
  o << "seed " << p.seed << "\nenv " << p.env << "\n";
  o << "pool";
  for (unsigned t : p.types) o << ' ' << t;
  o << "\ncmp " << p.cmpMode << "\nkeydom " << p.keyDom << "\nnoreloc " << (p.noReloc ? 1 : 0) << "\n";
  for (const Op &op : p.ops) {
    o << "op " << op.id << ' ' << nameOf(op.kind) << " c=" << op.c << " d=" << op.d << " a=" << op.a << " b=" << op.b
      << " n=" << op.n << " src=" << op.src << " fault=" << op.fkind << ':' << op.fk << (op.self ? " self=1" : "") << "\n";
  }
  if (!p.expectKind.empty()) o << "expect " << p.expectKind << ' ' << p.expectProps << ' ' << p.expectHash << "\n";
  if (!p.note.empty()) o << "note " << p.note << "\n";
  o << "end\n";
  return o.str();
}

inline bool plan_from_text(const std::string &text, Plan &p, OpKindFn kindOf, std::string &err) {
  std::istringstream in(text);
  std::string line;
  if (!std::getline(in, line) || line != "amcsim-plan v1") { err = "bad header"; return false; }
  p = Plan();
  while (std::getline(in, line)) {
    if (line.empty() || line[0] == '#') continue;
    std::istringstream ls(line);
    std::string w;
    ls >> w;
    if (w == "engine") ls >> p.engine;
    else if (w == "config") ls >> p.config;
    else if (w == "profile") ls >> p.profile;
    else if (w == "seed") ls >> p.seed;
    else if (w == "env") ls >> p.env;
    else if (w == "pool") { unsigned t; while (ls >> t) p.types.push_back(t); }
    else if (w == "cmp") ls >> p.cmpMode;
    else if (w == "keydom") ls >> p.keyDom;
    else if (w == "noreloc") { int v; ls >> v; p.noReloc = v != 0; }
    else if (w == "op") {
      Op op; std::string kname, tok;
      ls >> op.id >> kname;
      op.kind = kindOf(kname);
      if (op.kind < 0) { err = "unknown op kind " + kname; return false; }
      while (ls >> tok) {
        size_t eq = tok.find('=');
        if (eq == std::string::npos) continue;
        std::string k = tok.substr(0, eq), v = tok.substr(eq + 1);
        if (k == "c") op.c = (unsigned)strtoul(v.c_str(), nullptr, 10);
        else if (k == "d") op.d = (unsigned)strtoul(v.c_str(), nullptr, 10);
        else if (k == "a") op.a = (unsigned)strtoul(v.c_str(), nullptr, 10);
        else if (k == "b") op.b = (unsigned)strtoul(v.c_str(), nullptr, 10);
        else if (k == "n") op.n = (unsigned)strtoul(v.c_str(), nullptr, 10);
        else if (k == "src") op.src = atoi(v.c_str());
        else if (k == "self") op.self = atoi(v.c_str());
        else if (k == "fault") { op.fkind = atoi(v.c_str()); size_t c = v.find(':'); op.fk = c == std::string::npos ? 0 : atoi(v.c_str() + c + 1); }
      }
      p.ops.push_back(op);
    } else if (w == "expect") ls >> p.expectKind >> p.expectProps >> p.expectHash;
    else if (w == "note") { std::getline(ls, p.note); }
    else if (w == "end") break;
  }
  if (p.engine.empty() || p.config.empty() || p.types.empty()) { err = "incomplete plan"; return false; }
  return true;
}

}  // namespace sim
