// Element families with a life-cycle ledger.  C++11-compatible.
//   ETriv<K>        trivially copyable (no hooks possible)
//   ETr             not trivially copyable, declares trivially_relocatable = std::true_type; ledger keyed by a serial
//                   stored in the object (survives memcpy relocation, catches a stale duplicate being destroyed)
//   ENonTr<NX>      stores its own address; ledger keyed by address; any access with self != this means it was
//                   moved by raw byte copy.  NX=false only *declares* a throwing move (it never throws).
#pragma once
#include <cstdint>
#include <map>
#include <type_traits>
#include <vector>
#if defined(__cpp_impl_three_way_comparison) && __cplusplus >= 202002L
#include <compare>
#define SIM_HAS_3WAY 1
#endif

#include "core.hpp"

namespace sim {

enum ElemState { ES_ALIVE = 1, ES_MOVED = 2, ES_DEAD = 3, ES_GARBAGE = 4 };
static const int kPoisonKey = -77;

struct ElemLedger {
  struct Rec {
    unsigned char state;
    bool armedBorn;
  };
  std::map<uintptr_t, Rec> byAddr;  // ENonTr
  std::vector<Rec> bySerial;        // ETr (index = serial)
  long liveArmed, liveHarness;      // live objects by the context that created them
  unsigned long selfMoveOutsideVec, readMovedOutsideVec;
  ElemLedger() { reset(); }
  void reset() {
    byAddr.clear(); bySerial.clear(); bySerial.push_back(Rec{ES_DEAD, false});
    liveArmed = liveHarness = 0; selfMoveOutsideVec = readMovedOutsideVec = 0;
  }
  void born(bool armed) { armed ? ++liveArmed : ++liveHarness; }
  void died(bool armedBorn) { armedBorn ? --liveArmed : --liveHarness; }
};
extern ElemLedger g_elems;

inline void elem_viol(const char *what, const char *which) {
  HScope hs;
  G.violate_ctx(VK_ELEM, P(2), std::string(what) + ": " + which);
}

// ------------------------------------------------------------------------------------------------ ETriv
template <class K>
struct ETrivT {
  K key_, pay_;
  ETrivT() = default;
  ETrivT(int k, int p) : key_(K(k)), pay_(K(p)) {}
  int k() const { return int(key_); }
  int p() const { return int(pay_); }
  bool operator==(const ETrivT &o) const { return key_ == o.key_ && pay_ == o.pay_; }
  bool operator!=(const ETrivT &o) const { return !(*this == o); }
  bool operator<(const ETrivT &o) const { return key_ < o.key_ || (key_ == o.key_ && pay_ < o.pay_); }
#ifdef SIM_HAS_3WAY
  std::strong_ordering operator<=>(const ETrivT &o) const {
    if (key_ != o.key_) return key_ < o.key_ ? std::strong_ordering::less : std::strong_ordering::greater;
    if (pay_ != o.pay_) return pay_ < o.pay_ ? std::strong_ordering::less : std::strong_ordering::greater;
    return std::strong_ordering::equal;
  }
#endif
  static int state_of(const ETrivT &) { return ES_ALIVE; }
  static const bool kHooks = false;
};
typedef ETrivT<int> ETriv;
typedef ETrivT<int16_t> ETrivS;  // 4 bytes: two slots overlap the heap pointer of a SmallVector
/// over-aligned element (beyond max_align_t): an object of it found at an address that is not a multiple of 32 counts as garbage
struct alignas(32) EAl16 : ETrivT<int> {
  EAl16() = default;
  EAl16(int k, int p) : ETrivT<int>(k, p) {}
  static int state_of(const EAl16 &e) { return ((uintptr_t)&e % 32) == 0 ? ES_ALIVE : ES_GARBAGE; }
};
typedef ETrivT<int8_t> ETrivB;   // 2 bytes: four slots overlap the heap pointer (keys and payloads stay below 128)

// ------------------------------------------------------------------------------------------------ ETr
struct ETr {
  typedef std::true_type trivially_relocatable;
  int key_, pay_;
  uint32_t serial_;
  uint32_t magic_;
  static const uint32_t kMagic = 0x51E7A11Eu;
  static const bool kHooks = true;

  int k() const { return key_; }
  int p() const { return pay_; }

  void reg() {
    HScope hs;
    serial_ = (uint32_t)g_elems.bySerial.size();
    magic_ = kMagic;
    g_elems.bySerial.push_back(ElemLedger::Rec{ES_ALIVE, G.armed});
    g_elems.born(G.armed);
  }
  ElemLedger::Rec *rec() const {
    if (magic_ != kMagic || serial_ == 0 || serial_ >= g_elems.bySerial.size()) return nullptr;
    return &g_elems.bySerial[serial_];
  }
  bool ok(const char *what) const {
    ElemLedger::Rec *r = rec();
    if (!r) { elem_viol(what, "object is garbage (never constructed)"); return false; }
    if (r->state == ES_DEAD) { elem_viol(what, "object already destroyed (stale duplicate of a relocated element or double destroy)"); return false; }
    return true;
  }
  void read_check(const char *what) const {
    ElemLedger::Rec *r = rec();
    if (r && r->state == ES_MOVED) {
      if (G.inVecOp) elem_viol(what, "source is in a moved-from state");
      else ++g_elems.readMovedOutsideVec;
    }
  }
  ETr() : key_(0), pay_(0) { G.elem_throw_point(EV_DEFAULT_CTOR); G.elem_event(EV_DEFAULT_CTOR, this); reg(); }
  ETr(int k, int p) : key_(k), pay_(p) { G.elem_throw_point(EV_VALUE_CTOR); G.elem_event(EV_VALUE_CTOR, this); reg(); }
  ETr(const ETr &o) : key_(o.key_), pay_(o.pay_) {
    if (o.ok("copy-construct from")) o.read_check("copy-construct from");
    G.elem_throw_point(EV_COPY_CTOR);
    G.elem_event(EV_COPY_CTOR, this, &o);
    reg();
  }
  ETr(ETr &&o) noexcept : key_(o.key_), pay_(o.pay_) {
    if (o.ok("move-construct from")) {
      o.read_check("move-construct from");
      o.rec()->state = ES_MOVED; o.key_ = kPoisonKey; o.pay_ = kPoisonKey;
    }
    G.elem_event(EV_MOVE_CTOR, this, &o);
    reg();
  }
  ETr &operator=(const ETr &o) {
    bool a = ok("copy-assign to"), b = o.ok("copy-assign from");
    if (b) o.read_check("copy-assign from");
    G.elem_throw_point(EV_COPY_ASSIGN);
    G.elem_event(EV_COPY_ASSIGN, this, &o);
    if (a && b) { key_ = o.key_; pay_ = o.pay_; rec()->state = ES_ALIVE; }
    return *this;
  }
  ETr &operator=(ETr &&o) noexcept {
    bool a = ok("move-assign to"), b = o.ok("move-assign from");
    G.elem_event(EV_MOVE_ASSIGN, this, &o);
    if (this == &o) {
      if (G.inVecOp) {
        // a vector never needs this; the result of self-move-assignment is unspecified for many types: make it visible
        elem_viol("move-assign", "element move-assigned onto itself");
        if (a) { key_ = kPoisonKey; pay_ = kPoisonKey; rec()->state = ES_MOVED; }
      } else {
        ++g_elems.selfMoveOutsideVec;
      }
      return *this;
    }
    if (b) o.read_check("move-assign from");
    if (a && b) {
      key_ = o.key_; pay_ = o.pay_; rec()->state = ES_ALIVE;
      o.rec()->state = ES_MOVED; o.key_ = kPoisonKey; o.pay_ = kPoisonKey;
    }
    return *this;
  }
  ~ETr() {
    G.elem_event(EV_DTOR, this);
    if (ok("destroy")) { ElemLedger::Rec *r = rec(); g_elems.died(r->armedBorn); r->state = ES_DEAD; }
  }
  bool operator==(const ETr &o) const { return key_ == o.key_ && pay_ == o.pay_; }
  bool operator!=(const ETr &o) const { return !(*this == o); }
  bool operator<(const ETr &o) const { return key_ < o.key_ || (key_ == o.key_ && pay_ < o.pay_); }
#ifdef SIM_HAS_3WAY
  std::strong_ordering operator<=>(const ETr &o) const {
    if (key_ != o.key_) return key_ < o.key_ ? std::strong_ordering::less : std::strong_ordering::greater;
    if (pay_ != o.pay_) return pay_ < o.pay_ ? std::strong_ordering::less : std::strong_ordering::greater;
    return std::strong_ordering::equal;
  }
#endif
  static int state_of(const ETr &e) {
    ElemLedger::Rec *r = e.rec();
    return r ? (int)r->state : (int)ES_GARBAGE;
  }
};

// ------------------------------------------------------------------------------------------------ ENonTr
template <bool NoexceptMove>
struct ENonTr {
  int key_, pay_;
  const ENonTr *self_;
  static const bool kHooks = true;

  int k() const { return key_; }
  int p() const { return pay_; }

  void reg() {
    HScope hs;
    uintptr_t a = (uintptr_t)this;
    std::map<uintptr_t, ElemLedger::Rec>::iterator it = g_elems.byAddr.find(a);
    if (it != g_elems.byAddr.end()) {
      elem_viol("construct", "an object is constructed over a live object (the previous one was never destroyed)");
      g_elems.died(it->second.armedBorn);
      g_elems.byAddr.erase(it);
    }
    g_elems.byAddr[a] = ElemLedger::Rec{ES_ALIVE, G.armed};
    g_elems.born(G.armed);
    self_ = this;
  }
  ElemLedger::Rec *rec() const {
    std::map<uintptr_t, ElemLedger::Rec>::iterator it = g_elems.byAddr.find((uintptr_t)this);
    return it == g_elems.byAddr.end() ? nullptr : &it->second;
  }
  bool ok(const char *what) const {
    ElemLedger::Rec *r = rec();
    if (self_ != this) {
      elem_viol(what, r ? "object was moved by raw byte copy although its type is not trivially relocatable"
                        : "object is not alive here (moved by raw byte copy, destroyed, or never constructed)");
      return false;
    }
    if (!r) { elem_viol(what, "object already destroyed (access outside its lifetime)"); return false; }
    return true;
  }
  void read_check(const char *what) const {
    ElemLedger::Rec *r = rec();
    if (r && r->state == ES_MOVED) {
      if (G.inVecOp) elem_viol(what, "source is in a moved-from state");
      else ++g_elems.readMovedOutsideVec;
    }
  }
  ENonTr() : key_(0), pay_(0) { G.elem_throw_point(EV_DEFAULT_CTOR); G.elem_event(EV_DEFAULT_CTOR, this); reg(); }
  ENonTr(int k, int p) : key_(k), pay_(p) { G.elem_throw_point(EV_VALUE_CTOR); G.elem_event(EV_VALUE_CTOR, this); reg(); }
  ENonTr(const ENonTr &o) : key_(o.key_), pay_(o.pay_) {
    if (o.ok("copy-construct from")) o.read_check("copy-construct from");
    G.elem_throw_point(EV_COPY_CTOR);
    G.elem_event(EV_COPY_CTOR, this, &o);
    reg();
  }
  ENonTr(ENonTr &&o) noexcept(NoexceptMove) : key_(o.key_), pay_(o.pay_) {
    if (o.ok("move-construct from")) {
      o.read_check("move-construct from");
      o.rec()->state = ES_MOVED; o.key_ = kPoisonKey; o.pay_ = kPoisonKey;
    }
    G.elem_event(EV_MOVE_CTOR, this, &o);
    reg();
  }
  ENonTr &operator=(const ENonTr &o) {
    bool a = ok("copy-assign to"), b = o.ok("copy-assign from");
    if (b) o.read_check("copy-assign from");
    G.elem_throw_point(EV_COPY_ASSIGN);
    G.elem_event(EV_COPY_ASSIGN, this, &o);
    if (a && b) { key_ = o.key_; pay_ = o.pay_; rec()->state = ES_ALIVE; }
    return *this;
  }
  ENonTr &operator=(ENonTr &&o) noexcept(NoexceptMove) {
    bool a = ok("move-assign to"), b = o.ok("move-assign from");
    G.elem_event(EV_MOVE_ASSIGN, this, &o);
    if (this == &o) {
      if (G.inVecOp) {
        // a vector never needs this; the result of self-move-assignment is unspecified for many types: make it visible
        elem_viol("move-assign", "element move-assigned onto itself");
        if (a) { key_ = kPoisonKey; pay_ = kPoisonKey; rec()->state = ES_MOVED; }
      } else {
        ++g_elems.selfMoveOutsideVec;
      }
      return *this;
    }
    if (b) o.read_check("move-assign from");
    if (a && b) {
      key_ = o.key_; pay_ = o.pay_; rec()->state = ES_ALIVE;
      o.rec()->state = ES_MOVED; o.key_ = kPoisonKey; o.pay_ = kPoisonKey;
    }
    return *this;
  }
  ~ENonTr() {
    G.elem_event(EV_DTOR, this);
    HScope hs;
    if (ok("destroy")) {
      std::map<uintptr_t, ElemLedger::Rec>::iterator it = g_elems.byAddr.find((uintptr_t)this);
      g_elems.died(it->second.armedBorn);
      g_elems.byAddr.erase(it);
      self_ = nullptr;
    }
  }
  bool operator==(const ENonTr &o) const { return key_ == o.key_ && pay_ == o.pay_; }
  bool operator!=(const ENonTr &o) const { return !(*this == o); }
  bool operator<(const ENonTr &o) const { return key_ < o.key_ || (key_ == o.key_ && pay_ < o.pay_); }
#ifdef SIM_HAS_3WAY
  std::strong_ordering operator<=>(const ENonTr &o) const {
    if (key_ != o.key_) return key_ < o.key_ ? std::strong_ordering::less : std::strong_ordering::greater;
    if (pay_ != o.pay_) return pay_ < o.pay_ ? std::strong_ordering::less : std::strong_ordering::greater;
    return std::strong_ordering::equal;
  }
#endif
  static int state_of(const ENonTr &e) {
    if (e.self_ != &e) return ES_GARBAGE;
    ElemLedger::Rec *r = e.rec();
    return r ? (int)r->state : (int)ES_DEAD;
  }
};

// ------------------------------------------------------------------------------------------------ ECopy
/// Copy-only element (no move operations: rvalues bind to the copy constructor / copy assignment).  Every "move" a container
/// performs on it is a copy that may throw the injected fault -- the way to put a throwing element operation inside the
/// relocation loops (growth, SmallSet's switch to its large state) without making "not moved-from" unattainable.
/// Address-keyed ledger as ENonTr.
struct ECopy {
  int key_, pay_;
  const ECopy *self_;
  static const bool kHooks = true;
  int k() const { return key_; }
  int p() const { return pay_; }
  void reg() {
    HScope hs;
    uintptr_t a = (uintptr_t)this;
    std::map<uintptr_t, ElemLedger::Rec>::iterator it = g_elems.byAddr.find(a);
    if (it != g_elems.byAddr.end()) {
      elem_viol("construct", "an object is constructed over a live object (the previous one was never destroyed)");
      g_elems.died(it->second.armedBorn);
      g_elems.byAddr.erase(it);
    }
    g_elems.byAddr[a] = ElemLedger::Rec{ES_ALIVE, G.armed};
    g_elems.born(G.armed);
    self_ = this;
  }
  ElemLedger::Rec *rec() const {
    std::map<uintptr_t, ElemLedger::Rec>::iterator it = g_elems.byAddr.find((uintptr_t)this);
    return it == g_elems.byAddr.end() ? nullptr : &it->second;
  }
  bool ok(const char *what) const {
    ElemLedger::Rec *r = rec();
    if (self_ != this) {
      elem_viol(what, r ? "object was moved by raw byte copy although its type is not trivially relocatable"
                        : "object is not alive here (moved by raw byte copy, destroyed, or never constructed)");
      return false;
    }
    if (!r) { elem_viol(what, "object already destroyed (access outside its lifetime)"); return false; }
    return true;
  }
  ECopy() : key_(0), pay_(0) { G.elem_throw_point(EV_DEFAULT_CTOR); G.elem_event(EV_DEFAULT_CTOR, this); reg(); }
  ECopy(int k, int p) : key_(k), pay_(p) { G.elem_throw_point(EV_VALUE_CTOR); G.elem_event(EV_VALUE_CTOR, this); reg(); }
  ECopy(const ECopy &o) : key_(o.key_), pay_(o.pay_) {
    o.ok("copy-construct from");
    G.elem_throw_point(EV_COPY_CTOR);
    G.elem_event(EV_COPY_CTOR, this, &o);
    reg();
  }
  ECopy &operator=(const ECopy &o) {
    bool a = ok("copy-assign to"), b = o.ok("copy-assign from");
    G.elem_throw_point(EV_COPY_ASSIGN);
    G.elem_event(EV_COPY_ASSIGN, this, &o);
    if (a && b) { key_ = o.key_; pay_ = o.pay_; }
    return *this;
  }
  ~ECopy() {
    G.elem_event(EV_DTOR, this);
    HScope hs;
    if (ok("destroy")) {
      std::map<uintptr_t, ElemLedger::Rec>::iterator it = g_elems.byAddr.find((uintptr_t)this);
      g_elems.died(it->second.armedBorn);
      g_elems.byAddr.erase(it);
      self_ = nullptr;
    }
  }
  bool operator==(const ECopy &o) const { return key_ == o.key_ && pay_ == o.pay_; }
  bool operator!=(const ECopy &o) const { return !(*this == o); }
  bool operator<(const ECopy &o) const { return key_ < o.key_ || (key_ == o.key_ && pay_ < o.pay_); }
#ifdef SIM_HAS_3WAY
  std::strong_ordering operator<=>(const ECopy &o) const {
    if (key_ != o.key_) return key_ < o.key_ ? std::strong_ordering::less : std::strong_ordering::greater;
    if (pay_ != o.pay_) return pay_ < o.pay_ ? std::strong_ordering::less : std::strong_ordering::greater;
    return std::strong_ordering::equal;
  }
#endif
  static int state_of(const ECopy &e) {
    if (e.self_ != &e) return ES_GARBAGE;
    ElemLedger::Rec *r = e.rec();
    return r ? (int)r->state : (int)ES_DEAD;
  }
};

// ------------------------------------------------------------------------------------------------ EAgg
/// Non-trivial (because of its member) but without a user-provided default constructor: value-initialisation must
/// zero-initialise 'key_' first, default-initialisation leaves it indeterminate (fresh simulated memory is 0xCD).
struct AggMember {
  int v;
  AggMember() : v(7) {}
  AggMember(const AggMember &o) : v(o.v) {}
  AggMember &operator=(const AggMember &o) { v = o.v; return *this; }
  ~AggMember() { v = -1; }
};
struct EAgg {
  int key_;
  AggMember m_;
  EAgg() = default;
  EAgg(int k, int p) : key_(k) { m_.v = p; }
  int k() const { return key_; }
  int p() const { return m_.v; }
  bool operator==(const EAgg &o) const { return key_ == o.key_ && m_.v == o.m_.v; }
  bool operator!=(const EAgg &o) const { return !(*this == o); }
  bool operator<(const EAgg &o) const { return key_ < o.key_ || (key_ == o.key_ && m_.v < o.m_.v); }
#ifdef SIM_HAS_3WAY
  std::strong_ordering operator<=>(const EAgg &o) const {
    if (key_ != o.key_) return key_ < o.key_ ? std::strong_ordering::less : std::strong_ordering::greater;
    if (m_.v != o.m_.v) return m_.v < o.m_.v ? std::strong_ordering::less : std::strong_ordering::greater;
    return std::strong_ordering::equal;
  }
#endif
  static const bool kHooks = false;
  static int state_of(const EAgg &) { return ES_ALIVE; }
};

template <class T>
struct ElemTraits {
  static const bool hooks = T::kHooks;
  static const bool triviallyCopyable = std::is_trivially_copyable<T>::value;
};
template <class T>
inline Val val_of(const T &e) { return Val{e.k(), e.p()}; }
inline const char *estate_name(int s) {
  switch (s) {
    case ES_ALIVE: return "alive";
    case ES_MOVED: return "moved-from";
    case ES_DEAD: return "destroyed";
    default: return "garbage";
  }
}
/// probe key for heterogeneous lookup under a transparent comparator
struct KeyProbe {
  int key;
};
/// coarser probe: equivalent to every element whose key lies in [lo, hi] -- the classic use of a transparent comparator
/// (std::set::count then returns how many there are, find returns any of them, the bounds delimit the run)
struct RangeProbe {
  int lo, hi;
};

}  // namespace sim
