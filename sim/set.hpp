// Set engine: type-erased interface between the interpreter/oracles and the per-type adapters (FlatSet, SmallSet).
#pragma once
#include <cstdint>
#include <string>
#include <vector>

#include "core.hpp"
#include "plan.hpp"
#include "vec.hpp"

namespace sim {

#define SIM_SET_OPS(X)                                                                                               \
  X(INSERT_COPY) X(INSERT_MOVE) X(INSERT_HINT) X(INSERT_RANGE) X(INSERT_IL) X(EMPLACE) X(EMPLACE_HINT) X(ERASE_KEY)   \
  X(ERASE_POS) X(ERASE_RANGE) X(ERASE_LOOP) X(ERASE_IF) X(CLEAR) X(FIND) X(BOUNDS) X(FIND_HETERO) X(MERGE) X(MERGE2)  \
  X(EXTRACT_INSERT) X(EXTRACT_POS) X(SWAP) X(COPY_ASSIGN) X(MOVE_ASSIGN) X(ASSIGN_IL) X(CTOR_DEFAULT) X(CTOR_COPY)    \
  X(CTOR_MOVE) X(CTOR_RANGE) X(CTOR_IL) X(COMPARE) X(WALK) X(FROM_VECTOR) X(ASSIGN_VECTOR) X(STEAL_VECTOR) X(RESERVE) \
  X(SHRINK) X(GROW_PAST_N) X(DRAIN) X(BULK) X(RELOCATE)

enum SetOpKind {
#define X(n) S_##n,
  SIM_SET_OPS(X)
#undef X
      S_NKINDS
};
const char *set_op_name(int k);
int set_op_kind(const std::string &name);

enum SetFlavour { SF_FLAT = 0, SF_SMALL = 1 };

struct SetIOp {
  int kind = S_NKINDS;
  size_t pos = 0, pos2 = 0;   // positions (hint, erase position/range) as walk indices
  int stream = 0;
  unsigned variant = 0;
  std::vector<Val> vals;      // fresh values
  Val key{0, 0};              // lookup / erase key
  int mod = 2;                // predicate modulus of erase loops
  size_t count = 0;
  int cmpMode = 1;
  int fkind = F_NONE, fk = 0;
  bool toSelf = false;        // extract+insert(node) back into the same set
  unsigned probeWidth = 0;    // heterogeneous lookup: 0 = a key probe, w > 0 = a coarse probe equivalent to the keys [key, key + w]
};

struct CmpUse {
  int call;        // which call (0 find, 1 contains, 2 count, 3 lower_bound, 4 upper_bound, 5 equal_range, 6 insert, 7 emplace, 8 erase(key), 9 hinted insert)
  unsigned calls;  // comparator invocations
};

struct SetResult {
  int outcome = OUT_NOOP;
  bool flag = false;            // inserted / found
  bool flag2 = false;           // contains
  long count = -1;              // erase count / count()
  bool itEnd = false;           // returned iterator == end()
  bool itValid = true;          // returned iterator is end() or designates an element of a fresh walk
  bool hasIt = false;
  Val itVal{0, 0};              // element designated by the returned iterator
  long idx[4] = {-1, -1, -1, -1};  // lower_bound, upper_bound, equal_range first/second as walk indices (FlatSet)
  unsigned bits = 0;            // comparison operators
  bool nodeEmptyAfterExtract = true, nodeEmptyAfterInsert = true, nodeInserted = false;
  Val nodeVal{0, 0};
  std::vector<Val> reads;       // values read through accessors / walks
  std::vector<Val> erased;      // elements erased by an erase loop, in order
  std::vector<Val> stolen;      // steal_vector contents
  unsigned loopIters = 0;
  bool loopOverrun = false;     // erase loop exceeded its bound
  std::vector<CmpUse> cmp;
  std::string exWhat;
  bool streamReadAfterEof = false, streamReread = false;
  size_t stolenCapacity = 0;
};

struct SetObs {
  size_t size = 0;
  bool inlineState = true;      // SmallSet: currently stores its elements in the inline vector; FlatSet: n/a
  bool empty = true;
  size_t capacity = 0;          // FlatSet with extras
  const void *data = nullptr;   // FlatSet with extras: data() of the underlying vector
  bool dataInside = false;      // ... and whether it lies inside the set object (inline storage)
  size_t elemSize = 0;
};

struct SetType {
  std::string name;
  int flavour = SF_FLAT;
  unsigned N = 0;               // SmallSet inline capacity
  uint64_t limit = 0;           // FlatSet over a FixedCapacityVector: its capacity; otherwise "unbounded"
  bool limitThrows = true;
  size_t objSize = 0, objAlign = 0;
  bool elemHooks = false, elemTR = false;
  bool claimsTR = false;
  bool ordered = true;          // iteration order is the comparator order (FlatSet; SmallSet in large state only)
  bool transparent = false;     // comparator is transparent
  int cmpTag = 0;               // comparator *type* tag; sets with tag 1 are constructed with another ordering mode
  bool backingFlat = false;     // SmallSet over FlatSet
  bool hasVectorOps = false;    // FlatSet extras: construction/assignment from its vector_type, steal_vector, reserve, ...
  bool vecIsStd = false;
  int allocDomain = 0;
  void (*construct)(void *at, int cmpMode) = nullptr;
  void (*destroy)(void *at) = nullptr;
  SetObs (*observe)(const void *) = nullptr;
  /// forward and reverse walk with life-cycle checks of every element
  bool (*walk)(const void *, std::vector<Val> &fwd, std::vector<Val> &rev, std::string &err) = nullptr;
  void (*apply)(void *self, void *partner, const SetIOp &, SetResult &) = nullptr;
};

struct SetPair {
  void (*merge)(void *a, void *b, SetResult &) = nullptr;  // a.merge(b) for different set types
};

struct SetFamily {
  std::string name;
  std::string elem;
  std::vector<const SetType *> types;
  std::vector<std::vector<SetPair>> pairs;
};

void register_set_family(SetFamily *f);
const std::vector<SetFamily *> &set_families();
const SetFamily *find_set_family(const std::string &name);

}  // namespace sim
