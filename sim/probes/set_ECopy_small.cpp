#include "setfam.hpp"
SIM_REGISTER_SET_FAMILY(sim::make_set_family_small<sim::ECopy>("ECopy_small", "ECopy"))
