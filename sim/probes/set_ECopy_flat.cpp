#include "setfam.hpp"
SIM_REGISTER_SET_FAMILY(sim::make_set_family_flat<sim::ECopy>("ECopy_flat", "ECopy"))
