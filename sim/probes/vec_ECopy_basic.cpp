#include "vecfam.hpp"
namespace sim {
static VecFamily *make() {
  typedef ECopy E;  // copy-only element: every relocation is a copy that may throw
  return FamilyBuilder<amc::vector<E, AB<E>>, amc::SmallVector<E, 3, AS<E>>, amc::FixedCapacityVector<E, 5>, amc::SmallVector<E, 2, AR<E>, uint8_t>, amc::vector<E, AM<E>>>::
      build("ECopy_basic", "ECopy", {"vector<B>", "SmallVector<3,S>", "Fixed<5>", "SmallVector<2,R,u8>", "vector<M>"});
}
}  // namespace sim
SIM_REGISTER_FAMILY(sim::make())
