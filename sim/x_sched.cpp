// C20: concurrent const access is race-free.  Real threads, released one operation at a time by a seeded scheduler;
// built with clang -fsanitize=thread.  The scheduler's hand-offs are hidden from TSan's happens-before tracking
// (AnnotateIgnoreSync*), so the operations of different threads are judged as concurrent although they never overlap in
// real time: one seed is one interleaving, and TSan's verdict for it is repeatable.
//
//   sched run <seedBase> <start> <count> [maxSeconds]
//   sched one <seedBase> <index> [-v]
#define AMC_NONSTD_FEATURES 1
#include <amc/fixedcapacityvector.hpp>
#include <amc/flatset.hpp>
#include <amc/smallset.hpp>
#include <amc/smallvector.hpp>
#include <amc/vector.hpp>
#include <pthread.h>
#include <unistd.h>

#include <chrono>
#include <cstdio>
#include <cstdlib>
#include <cstring>
#include <string>
#include <thread>
#include <vector>

extern "C" {
void AnnotateIgnoreSyncBegin(const char *file, int line);
void AnnotateIgnoreSyncEnd(const char *file, int line);
void AnnotateIgnoreReadsBegin(const char *file, int line);
void AnnotateIgnoreReadsEnd(const char *file, int line);
void AnnotateIgnoreWritesBegin(const char *file, int line);
void AnnotateIgnoreWritesEnd(const char *file, int line);
}
#define IGN_BEGIN() do { AnnotateIgnoreSyncBegin(__FILE__, __LINE__); AnnotateIgnoreReadsBegin(__FILE__, __LINE__); AnnotateIgnoreWritesBegin(__FILE__, __LINE__); } while (0)
#define IGN_END() do { AnnotateIgnoreWritesEnd(__FILE__, __LINE__); AnnotateIgnoreReadsEnd(__FILE__, __LINE__); AnnotateIgnoreSyncEnd(__FILE__, __LINE__); } while (0)

static inline uint64_t splitmix64(uint64_t &s) {
  uint64_t z = (s += 0x9e3779b97f4a7c15ULL);
  z = (z ^ (z >> 30)) * 0xbf58476d1ce4e5b9ULL;
  z = (z ^ (z >> 27)) * 0x94d049bb133111ebULL;
  return z ^ (z >> 31);
}
struct Rng {
  uint64_t s;
  explicit Rng(uint64_t x) : s(x) {}
  uint64_t next() { return splitmix64(s); }
  unsigned below(unsigned n) { return n ? (unsigned)(next() % n) : 0u; }
};
static uint64_t mix64(uint64_t a, uint64_t b) { uint64_t s = a * 0x9e3779b97f4a7c15ULL + b; return splitmix64(s) ^ b; }

// element with a non-trivial copy (so that copy-construction of the container runs element code)
struct Item {
  int key;
  int pad;
  Item(int k = 0) : key(k), pad(k * 3 + 1) {}
  Item(const Item &o) : key(o.key), pad(o.pad) {}
  Item &operator=(const Item &o) { key = o.key; pad = o.pad; return *this; }
  bool operator==(const Item &o) const { return key == o.key; }
  bool operator<(const Item &o) const { return key < o.key; }
#ifdef AMC_CXX20
  auto operator<=>(const Item &o) const { return key <=> o.key; }
#endif
};

// ------------------------------------------------------------------------------------------------ scheduler
struct Sched {
  pthread_mutex_t mu;
  pthread_cond_t cv;
  int turn;      // -1: scheduler; i >= 0: thread i may run exactly one operation
  int finished;  // number of threads whose script is exhausted
  Sched() : turn(-1), finished(0) { pthread_mutex_init(&mu, nullptr); pthread_cond_init(&cv, nullptr); }
  // called by worker i: wait until released
  void wait_turn(int i) {
    IGN_BEGIN();
    pthread_mutex_lock(&mu);
    while (turn != i) pthread_cond_wait(&cv, &mu);
    pthread_mutex_unlock(&mu);
    IGN_END();
  }
  void yield_back(bool done) {
    IGN_BEGIN();
    pthread_mutex_lock(&mu);
    turn = -1;
    if (done) ++finished;
    pthread_cond_broadcast(&cv);
    pthread_mutex_unlock(&mu);
    IGN_END();
  }
  // scheduler: release thread i and wait until it has executed its operation
  void release(int i) {
    IGN_BEGIN();
    pthread_mutex_lock(&mu);
    turn = i;
    pthread_cond_broadcast(&cv);
    while (turn != -1) pthread_cond_wait(&cv, &mu);
    pthread_mutex_unlock(&mu);
    IGN_END();
  }
};

static volatile long g_sink;  // results of the const operations end here (thread-private accumulation, written under ignore)

// ------------------------------------------------------------------------------------------------ reader operations
template <class V>
static long vec_reader_op(const V &c, const V &mine, unsigned op, unsigned arg) {
  long acc = 0;
  switch (op % 10) {
    case 0: acc = (long)c.size() + (long)c.capacity() + (c.empty() ? 1 : 0) + (long)c.max_size() % 7; break;
    case 1: for (typename V::const_iterator it = c.begin(); it != c.end(); ++it) acc += it->key; break;
    case 2: for (typename V::const_reverse_iterator it = c.rbegin(); it != c.rend(); ++it) acc += it->pad; break;
    case 3: if (!c.empty()) acc = c[(typename V::size_type)(arg % c.size())].key + c.at((typename V::size_type)(arg % c.size())).pad; break;
    case 4: if (!c.empty()) acc = c.front().key + c.back().key + c.data()[arg % c.size()].key; break;
    case 5: acc = (c == mine) + 2 * (c != mine); break;
    case 6: acc = (c < mine) + 2 * (c <= mine) + 4 * (c > mine) + 8 * (c >= mine); break;
    case 7: { V copy(c); acc = (long)copy.size(); } break;
    case 8: { V copy; copy = c; acc = (long)copy.size(); } break;
    default: acc = (long)(c.cend() - c.cbegin()) + (long)(c.crend() - c.crbegin()); break;
  }
  return acc;
}
template <class V>
static void vec_writer_op(V &mine, unsigned op, unsigned arg, size_t room) {
  switch (op % 8) {
    case 0: if (mine.size() < room) mine.push_back(Item((int)arg % 50)); break;
    case 1: if (!mine.empty()) mine.pop_back(); break;
    case 2: if (mine.size() < room) mine.insert(mine.begin() + arg % (mine.size() + 1), Item((int)arg % 50)); break;
    case 3: if (!mine.empty()) mine.erase(mine.begin() + arg % mine.size()); break;
    case 4: mine.clear(); break;
    case 5: mine.shrink_to_fit(); break;
    case 6: if (mine.size() + 3 <= room) mine.insert(mine.end(), 3, Item(7)); break;
    default: mine.resize(arg % (room < 6 ? room : 6)); break;
  }
}
template <class S>
static long set_reader_op(const S &c, const S &mine, unsigned op, unsigned arg, bool flat) {
  long acc = 0;
  Item k((int)(arg % 40));
  switch (op % 10) {
    case 0: acc = (long)c.size() + (c.empty() ? 1 : 0); break;
    case 1: for (typename S::const_iterator it = c.begin(); it != c.end(); ++it) acc += it->key; break;
    case 2: for (typename S::const_reverse_iterator it = c.rbegin(); it != c.rend(); ++it) acc += it->pad; break;
    case 3: acc = (c.find(k) != c.end()) + 2 * c.contains(k) + 4 * (long)c.count(k); break;
    case 4: acc = (c == mine) + 2 * (c != mine); break;
    case 5: acc = (c < mine) + 2 * (c <= mine) + 4 * (c > mine) + 8 * (c >= mine); break;
    case 6: { S copy(c); acc = (long)copy.size(); } break;
    case 7: { S copy; copy = c; acc = (long)copy.size(); } break;
    case 8: acc = (long)c.max_size() % 5 + (c.cbegin() == c.begin()); break;
    default: (void)flat; acc = (c.find(k) == c.end()); break;
  }
  return acc;
}
template <class S>
static long flat_extra_op(const S &c, unsigned arg) {
  Item k((int)(arg % 40));
  std::pair<typename S::const_iterator, typename S::const_iterator> pr = c.equal_range(k);
  return (long)(c.lower_bound(k) - c.begin()) + (long)(c.upper_bound(k) - c.begin()) + (long)(pr.second - pr.first) + (c.empty() ? 0 : c.front().key + c.back().key + c[0].key + c.data()[0].key) +
         (long)c.capacity();
}
template <class S>
static void set_writer_op(S &mine, unsigned op, unsigned arg) {
  switch (op % 6) {
    case 0: case 1: mine.insert(Item((int)(arg % 40))); break;
    case 2: mine.erase(Item((int)(arg % 40))); break;
    case 3: if (!mine.empty()) mine.erase(mine.begin()); break;
    case 4: mine.emplace((int)(arg % 40)); break;
    default: mine.clear(); break;
  }
}

// ------------------------------------------------------------------------------------------------ one run
struct Footprint {
  std::vector<std::pair<const char *, size_t>> ranges;
  std::vector<unsigned char> snap;
  void add(const void *p, size_t n) { if (p && n) ranges.push_back(std::make_pair((const char *)p, n)); }
  void take(std::vector<unsigned char> &out) const {
    out.clear();
    for (size_t i = 0; i < ranges.size(); ++i) out.insert(out.end(), ranges[i].first, ranges[i].first + ranges[i].second);
  }
};
template <class V>
static void footprint_vec(const V &c, Footprint &f) {
  f.add(&c, sizeof(V));
  const char *d = (const char *)c.data();
  if (d && !(d >= (const char *)&c && d < (const char *)(&c + 1))) f.add(d, (size_t)c.capacity() * sizeof(typename V::value_type));
}
template <class S>
static void footprint_set(const S &c, Footprint &f) {
  f.add(&c, sizeof(S));
  // element storage: every element's bytes (covers inline storage, vector buffers and tree nodes' payloads)
  for (typename S::const_iterator it = c.begin(); it != c.end(); ++it) f.add(&*it, sizeof(typename S::value_type));
}

struct RunResult {
  unsigned ops;
  bool bytesChanged;
};

template <class C, class ReaderFn, class WriterFn, class FootFn>
static RunResult run_threads(uint64_t seed, const C &shared, ReaderFn readerOp, WriterFn writerOp, FootFn foot, bool verbose) {
  Rng r(seed);
  int R = 2 + (int)r.below(5), W = (int)r.below(4);
  int N = R + W;
  std::vector<std::vector<std::pair<unsigned, unsigned>>> scripts(N);
  for (int i = 0; i < N; ++i) {
    unsigned len = 3 + r.below(18);
    for (unsigned k = 0; k < len; ++k) scripts[i].push_back(std::make_pair((unsigned)r.next(), (unsigned)r.next()));
  }
  Footprint fp;
  foot(shared, fp);
  std::vector<unsigned char> before, after;
  fp.take(before);
  for (size_t i = 0; i < fp.ranges.size(); ++i) fprintf(stderr, "FOOTPRINT %p %zu\n", (const void *)fp.ranges[i].first, fp.ranges[i].second);
  Sched sch;
  std::vector<std::thread> threads;
  for (int i = 0; i < N; ++i) {
    threads.emplace_back([&, i]() {
      C mine(shared);  // thread-private container (copy-construction from the shared one is itself a const operation)
      long acc = 0;
      const std::vector<std::pair<unsigned, unsigned>> &sc = scripts[i];
      for (size_t k = 0; k < sc.size(); ++k) {
        sch.wait_turn(i);
        if (i < R) acc += readerOp(shared, mine, sc[k].first, sc[k].second);
        else writerOp(mine, sc[k].first, sc[k].second);
        sch.yield_back(k + 1 == sc.size());
      }
      IGN_BEGIN();
      g_sink += acc;
      IGN_END();
    });
  }
  // seeded release order
  std::vector<size_t> pos(N, 0);
  unsigned ops = 0;
  std::string order;
  while (true) {
    std::vector<int> live;
    for (int i = 0; i < N; ++i) if (pos[i] < scripts[i].size()) live.push_back(i);
    if (live.empty()) break;
    int pick = live[r.below((unsigned)live.size())];
    ++pos[pick];
    ++ops;
    if (verbose) { char b[16]; snprintf(b, sizeof b, "%s%c%d", order.empty() ? "" : " ", pick < R ? 'r' : 'w', pick); order += b; }
    sch.release(pick);
  }
  for (size_t i = 0; i < threads.size(); ++i) threads[i].join();
  fp.take(after);
  if (verbose) printf("SCHEDULE readers=%d writers=%d order=%s\n", R, W, order.c_str());
  RunResult res;
  res.ops = ops;
  res.bytesChanged = before != after;
  return res;
}

typedef amc::allocator<Item> AL;
template <class V>
static RunResult vec_case(uint64_t seed, unsigned fill, bool reserveFirst, size_t room, bool verbose) {
  V shared;
  if (reserveFirst) shared.reserve((typename V::size_type)(room < 12 ? room : 12));
  for (unsigned i = 0; i < fill && i < room; ++i) shared.push_back(Item((int)(i * 7 % 40)));
  return run_threads(seed, shared, [](const V &c, const V &m, unsigned op, unsigned a) { return vec_reader_op(c, m, op, a); },
                     [room](V &m, unsigned op, unsigned a) { vec_writer_op(m, op, a, room); }, [](const V &c, Footprint &f) { footprint_vec(c, f); }, verbose);
}
template <class S>
static RunResult set_case(uint64_t seed, unsigned fill, bool flat, bool verbose) {
  S shared;
  for (unsigned i = 0; i < fill; ++i) shared.insert(Item((int)(i * 11 % 40)));
  return run_threads(seed, shared, [flat](const S &c, const S &m, unsigned op, unsigned a) { return set_reader_op(c, m, op, a, flat); },
                     [](S &m, unsigned op, unsigned a) { set_writer_op(m, op, a); }, [](const S &c, Footprint &f) { footprint_set(c, f); }, verbose);
}
typedef amc::FlatSet<Item, std::less<Item>, AL> FSet;
static RunResult flat_case(uint64_t seed, unsigned fill, bool verbose) {
  FSet shared;
  for (unsigned i = 0; i < fill; ++i) shared.insert(Item((int)(i * 11 % 40)));
  return run_threads(seed, shared, [](const FSet &c, const FSet &m, unsigned op, unsigned a) { return (op >> 8) % 3 == 0 ? flat_extra_op(c, a) : set_reader_op(c, m, op, a, true); },
                     [](FSet &m, unsigned op, unsigned a) { set_writer_op(m, op, a); }, [](const FSet &c, Footprint &f) { footprint_set(c, f); }, verbose);
}

static const char *kKinds[] = {"vector", "SmallVector<4> inline", "SmallVector<4> heap", "FixedCapacityVector<8>", "FlatSet", "SmallSet<4> inline", "SmallSet<4> large",
                               "SmallSet<4,FlatSet> inline", "SmallSet<4,FlatSet> large", "FlatSet<SmallVector<4>>"};
static const int kNKinds = 10;

static RunResult run_one(uint64_t seed, int &kind, bool verbose) {
  Rng r(seed ^ 0xC20);
  kind = (int)r.below(kNKinds);
  unsigned f = r.below(4);
  switch (kind) {
    case 0: return vec_case<amc::vector<Item, AL>>(seed, 1 + r.below(12), r.below(2) != 0, 40, verbose);
    case 1: return vec_case<amc::SmallVector<Item, 4, AL>>(seed, f + 1, false, 40, verbose);
    case 2: return vec_case<amc::SmallVector<Item, 4, AL>>(seed, 5 + r.below(8), false, 40, verbose);
    case 3: return vec_case<amc::FixedCapacityVector<Item, 8>>(seed, 1 + r.below(8), false, 8, verbose);
    case 4: return flat_case(seed, 1 + r.below(20), verbose);
    case 5: return set_case<amc::SmallSet<Item, 4, std::less<Item>, AL>>(seed, 1 + f, false, verbose);
    case 6: return set_case<amc::SmallSet<Item, 4, std::less<Item>, AL>>(seed, 6 + r.below(10), false, verbose);
    case 7: return set_case<amc::SmallSet<Item, 4, std::less<Item>, AL, FSet>>(seed, 1 + f, false, verbose);
    case 8: return set_case<amc::SmallSet<Item, 4, std::less<Item>, AL, FSet>>(seed, 6 + r.below(10), false, verbose);
    default: return set_case<amc::FlatSet<Item, std::less<Item>, AL, amc::SmallVector<Item, 4, AL>>>(seed, 1 + r.below(9), true, verbose);
  }
}

int main(int argc, char **argv) {
  setvbuf(stdout, nullptr, _IOLBF, 0);
  setvbuf(stderr, nullptr, _IOLBF, 0);
  if (argc < 4) return 2;
  std::string cmd = argv[1];
  uint64_t base = strtoull(argv[2], nullptr, 10);
  if (cmd == "one") {
    unsigned i = (unsigned)atoi(argv[3]);
    bool verbose = argc > 4;
    int kind = 0;
    fprintf(stderr, "RUN %u seed %llu\n", i, (unsigned long long)mix64(base, i));
    RunResult rr = run_one(mix64(base, i), kind, verbose);
    fprintf(stderr, "ENDRUN %u\n", i);
    printf("R %u kind=%s ops=%u bytes_changed=%d\n", i, kKinds[kind], rr.ops, (int)rr.bytesChanged);
    return 0;
  }
  if (cmd == "run" && argc >= 5) {
    uint64_t start = strtoull(argv[3], nullptr, 10), count = strtoull(argv[4], nullptr, 10);
    double maxSecs = argc > 5 ? atof(argv[5]) : 1e9;
    unsigned stride = argc > 6 ? (unsigned)atoi(argv[6]) : 1;
    std::chrono::steady_clock::time_point t0 = std::chrono::steady_clock::now();
    unsigned long runs = 0, ops = 0;
    unsigned long perKind[16] = {0};
    for (uint64_t k = 0; k < count; ++k) {
      uint64_t i = start + k * stride;
      int kind = 0;
      fprintf(stderr, "RUN %llu seed %llu\n", (unsigned long long)i, (unsigned long long)mix64(base, i));
      RunResult rr = run_one(mix64(base, i), kind, false);
      fprintf(stderr, "ENDRUN %llu\n", (unsigned long long)i);
      ++runs; ops += rr.ops; ++perKind[kind];
      if (rr.bytesChanged) printf("B %llu kind=%s the bytes of the shared container changed during the reader phase\n", (unsigned long long)i, kKinds[kind]);
      double secs = std::chrono::duration<double>(std::chrono::steady_clock::now() - t0).count();
      if (secs > maxSecs) break;
    }
    double secs = std::chrono::duration<double>(std::chrono::steady_clock::now() - t0).count();
    printf("STATS {\"runs\":%lu,\"ops\":%lu,\"secs\":%.3f,\"kinds\":{", runs, ops, secs);
    for (int k = 0; k < kNKinds; ++k) printf("%s\"%s\":%lu", k ? "," : "", kKinds[k], perKind[k]);
    printf("}}\nDONE runs=%lu\n", runs);
    return 0;
  }
  return 2;
}
