// C20: concurrent const access is race-free.  Real threads, released one operation at a time by a seeded scheduler;
// built with clang -fsanitize=thread.  The scheduler's hand-offs are hidden from TSan's happens-before tracking
// (AnnotateIgnoreSync*), so the operations of different threads are judged as concurrent although they never overlap in
// real time: one seed is one interleaving, and TSan's verdict for it is repeatable.
//
//   sched run <seedBase> <start> <count> [maxSeconds]
//   sched one <seedBase> <index> [-v]
#define AMC_NONSTD_FEATURES 1
#include <amc/fixedcapacityvector.hpp>
#include <amc/flatset.hpp>
#include <amc/smallset.hpp>
#include <amc/smallvector.hpp>
#include <amc/vector.hpp>
#include <pthread.h>
#include <unistd.h>

#include <chrono>
#include <cstdio>
#include <cstdlib>
#include <cstring>
#include <string>
#include <thread>
#include <vector>

extern "C" {
void AnnotateIgnoreSyncBegin(const char *file, int line);
void AnnotateIgnoreSyncEnd(const char *file, int line);
void AnnotateIgnoreReadsBegin(const char *file, int line);
void AnnotateIgnoreReadsEnd(const char *file, int line);
void AnnotateIgnoreWritesBegin(const char *file, int line);
void AnnotateIgnoreWritesEnd(const char *file, int line);
}
#define IGN_BEGIN() do { AnnotateIgnoreSyncBegin(__FILE__, __LINE__); AnnotateIgnoreReadsBegin(__FILE__, __LINE__); AnnotateIgnoreWritesBegin(__FILE__, __LINE__); } while (0)
#define IGN_END() do { AnnotateIgnoreWritesEnd(__FILE__, __LINE__); AnnotateIgnoreReadsEnd(__FILE__, __LINE__); AnnotateIgnoreSyncEnd(__FILE__, __LINE__); } while (0)

static inline uint64_t splitmix64(uint64_t &s) {
  uint64_t z = (s += 0x9e3779b97f4a7c15ULL);
  z = (z ^ (z >> 30)) * 0xbf58476d1ce4e5b9ULL;
  z = (z ^ (z >> 27)) * 0x94d049bb133111ebULL;
  return z ^ (z >> 31);
}
struct Rng {
  uint64_t s;
  explicit Rng(uint64_t x) : s(x) {}
  uint64_t next() { return splitmix64(s); }
  unsigned below(unsigned n) { return n ? (unsigned)(next() % n) : 0u; }
};
static uint64_t mix64(uint64_t a, uint64_t b) { uint64_t s = a * 0x9e3779b97f4a7c15ULL + b; return splitmix64(s) ^ b; }

// element with a non-trivial copy (so that copy-construction of the container runs element code)
struct Item {
  int key;
  int pad;
  Item(int k = 0) : key(k), pad(k * 3 + 1) {}
  Item(const Item &o) : key(o.key), pad(o.pad) {}
  Item &operator=(const Item &o) { key = o.key; pad = o.pad; return *this; }
  bool operator==(const Item &o) const { return key == o.key; }
  bool operator<(const Item &o) const { return key < o.key; }
#ifdef AMC_CXX20
  auto operator<=>(const Item &o) const { return key <=> o.key; }
#endif
  friend bool operator<(const Item &a, long b) { return a.key < b; }  // heterogeneous lookups under std::less<>
  friend bool operator<(long a, const Item &b) { return a < b.key; }
};
template <class T> static int key_of(const T &x) { return x.key; }
static int key_of(int x) { return x; }
template <class T> static int pad_of(const T &x) { return x.pad; }
static int pad_of(int x) { return x * 3 + 1; }
template <class C> struct IsTransparent : std::false_type {};
template <> struct IsTransparent<std::less<> > : std::true_type {};
template <class S, class Cmp = typename S::key_compare>
static typename std::enable_if<IsTransparent<Cmp>::value, long>::type hetero_lookup(const S &c, int k) {
  long key = k;
  return (c.find(key) != c.end()) + 2 * c.contains(key) + 4 * (long)c.count(key);
}
template <class S, class Cmp = typename S::key_compare>
static typename std::enable_if<!IsTransparent<Cmp>::value, long>::type hetero_lookup(const S &, int) { return 0; }
template <class S, class Cmp = typename S::key_compare>
static typename std::enable_if<IsTransparent<Cmp>::value, long>::type hetero_bounds(const S &c, int k) {
  long key = k;
  auto pr = c.equal_range(key);
  return (long)(c.lower_bound(key) - c.begin()) + (long)(c.upper_bound(key) - c.begin()) + (long)(pr.second - pr.first);
}
template <class S, class Cmp = typename S::key_compare>
static typename std::enable_if<!IsTransparent<Cmp>::value, long>::type hetero_bounds(const S &, int) { return 0; }

// ------------------------------------------------------------------------------------------------ scheduler
struct Sched {
  pthread_mutex_t mu;
  pthread_cond_t cv;
  int turn;      // -1: scheduler; i >= 0: thread i may run exactly one operation
  int finished;  // number of threads whose script is exhausted
  Sched() : turn(-1), finished(0) { pthread_mutex_init(&mu, nullptr); pthread_cond_init(&cv, nullptr); }
  // called by worker i: wait until released
  void wait_turn(int i) {
    IGN_BEGIN();
    pthread_mutex_lock(&mu);
    while (turn != i) pthread_cond_wait(&cv, &mu);
    pthread_mutex_unlock(&mu);
    IGN_END();
  }
  void yield_back(bool done) {
    IGN_BEGIN();
    pthread_mutex_lock(&mu);
    turn = -1;
    if (done) ++finished;
    pthread_cond_broadcast(&cv);
    pthread_mutex_unlock(&mu);
    IGN_END();
  }
  // scheduler: release thread i and wait until it has executed its operation
  void release(int i) {
    IGN_BEGIN();
    pthread_mutex_lock(&mu);
    turn = i;
    pthread_cond_broadcast(&cv);
    while (turn != -1) pthread_cond_wait(&cv, &mu);
    pthread_mutex_unlock(&mu);
    IGN_END();
  }
};

static int g_keyDom = 40;  // key domain of the current run (set before the threads start, read-only afterwards)
static volatile long g_sink;  // results of the const operations end here (thread-private accumulation, written under ignore)

// ------------------------------------------------------------------------------------------------ reader operations
template <class V>
static long vec_reader_op(const V &c, const V &mine, unsigned op, unsigned arg) {
  typedef typename V::value_type T;
  long acc = 0;
  switch (op % 15) {
    case 0: acc = (long)c.size() + (long)c.capacity() + (c.empty() ? 1 : 0) + (long)c.max_size() % 7; break;
    case 1: for (typename V::const_iterator it = c.begin(); it != c.end(); ++it) acc += key_of(*it); break;
    case 2: for (typename V::const_reverse_iterator it = c.rbegin(); it != c.rend(); ++it) acc += pad_of(*it); break;
    case 3: if (!c.empty()) acc = key_of(c[(typename V::size_type)(arg % c.size())]) + pad_of(c.at((typename V::size_type)(arg % c.size()))); break;
    case 4: if (!c.empty()) acc = key_of(c.front()) + key_of(c.back()) + key_of(c.data()[arg % c.size()]); break;
    case 5: acc = (c == mine) + 2 * (c != mine); break;
    case 6: acc = (c < mine) + 2 * (c <= mine) + 4 * (c > mine) + 8 * (c >= mine); break;
    case 7: { V copy(c); acc = (long)copy.size(); } break;
    case 8: { V copy; copy = c; acc = (long)copy.size(); } break;
    case 9: { V copy(c.begin(), c.end()); acc = (long)copy.size(); } break;                      // range construction from the shared container's iterators
    case 10: { std::vector<T> copy(c.cbegin(), c.cend()); acc = (long)copy.size(); } break;
    case 11: { V copy(c, c.get_allocator()); acc = (long)copy.size(); } break;                    // allocator-extended copy
    case 12: { V other(mine); if (other.size() + c.size() <= other.max_size()) other.insert(other.begin(), c.begin(), c.end()); other.assign(c.begin(), c.end()); acc = (long)other.size(); } break;
    case 13: try { acc = key_of(c.at((typename V::size_type)(c.size() + arg % 3))); } catch (const std::out_of_range &) { acc = -1; } break;  // the failing path of at()
    default: acc = (long)(c.cend() - c.cbegin()) + (long)(c.crend() - c.crbegin()); break;
  }
  return acc;
}
template <class V, typename std::enable_if<(V::kInlineCapacity == 0) || !std::is_same<typename V::allocator_type, amc::vec::EmptyAlloc>::value, bool>::type = true>
static void vec_swap2(V &a, amc::SmallVector<typename V::value_type, 3, amc::allocator<typename V::value_type> > &b) { a.swap2(b); }
template <class V, typename std::enable_if<!((V::kInlineCapacity == 0) || !std::is_same<typename V::allocator_type, amc::vec::EmptyAlloc>::value), bool>::type = true>
static void vec_swap2(V &a, amc::SmallVector<typename V::value_type, 3, amc::allocator<typename V::value_type> > &b) {
  if (b.size() <= a.capacity()) a.swap2(b);
}
/// a genuinely single-pass input iterator (values produced on the fly)
template <class T>
struct GenIt {
  typedef std::input_iterator_tag iterator_category;
  typedef T value_type;
  typedef std::ptrdiff_t difference_type;
  typedef const T *pointer;
  typedef T reference;
  int cur, end;
  GenIt(int c, int e) : cur(c), end(e) {}
  T operator*() const { return T(cur); }
  GenIt &operator++() { ++cur; return *this; }
  GenIt operator++(int) { GenIt t = *this; ++cur; return t; }
  bool operator==(const GenIt &o) const { return (cur >= end) == (o.cur >= o.end); }
  bool operator!=(const GenIt &o) const { return !(*this == o); }
};
template <class V>
static void vec_writer_op(V &mine, V &mine2, const V &shared, unsigned op, unsigned arg, size_t room) {
  typedef typename V::value_type T;
  switch (op % 20) {
    case 18: if (mine.size() + 4 <= room) mine.insert(mine.begin() + arg % (mine.size() + 1), GenIt<T>(0, (int)(arg % 4)), GenIt<T>(0, 0)); break;  // single-pass range, also in the middle
    case 19: if (mine.size() + 4 <= room) mine.assign(GenIt<T>(3, 3 + (int)(arg % 4)), GenIt<T>(0, 0)); break;
    case 0: if (mine.size() < room) mine.push_back(T((int)(arg % (unsigned)(g_keyDom + 10)))); break;
    case 1: if (!mine.empty()) mine.pop_back(); break;
    case 2: if (mine.size() < room) mine.insert(mine.begin() + arg % (mine.size() + 1), T((int)(arg % (unsigned)(g_keyDom + 10)))); break;
    case 3: if (!mine.empty()) mine.erase(mine.begin() + arg % mine.size()); break;
    case 4: mine.clear(); break;
    case 5: mine.shrink_to_fit(); break;
    case 6: if (mine.size() + 3 <= room) mine.insert(mine.end(), 3, T(7)); break;
    case 7: mine.resize(arg % (room < 6 ? room : 6)); break;
    case 8: mine.swap(mine2); break;
    case 9: mine = std::move(mine2); mine2.clear(); break;
    case 10: mine2 = mine; break;
    case 11: mine = shared; break;                                                                 // copy assignment from the shared container (a const use of it)
    case 12: mine.assign(shared.begin(), shared.end()); break;
    case 13: if (mine.size() < room) mine.emplace(mine.begin() + arg % (mine.size() + 1), (int)arg % 50); break;
    case 14: mine.reserve((typename V::size_type)(arg % (room < 24 ? room : 24))); break;
    case 15: if (mine.size() >= 2) mine.erase(mine.begin() + 1, mine.begin() + 1 + arg % (mine.size() - 1)); break;
    case 16: { amc::SmallVector<T, 3, amc::allocator<T> > other; for (unsigned i = 0; i < arg % 6 && i < room; ++i) other.push_back(T((int)i)); vec_swap2(mine, other); } break;
    default: mine.assign((typename V::size_type)(arg % (room < 9 ? room : 9)), T((int)(arg % (unsigned)(g_keyDom + 10)))); break;
  }
}
template <class S>
static long set_reader_op(const S &c, const S &mine, unsigned op, unsigned arg, bool flat) {
  typedef typename S::value_type T;
  long acc = 0;
  T k((int)(arg % (unsigned)g_keyDom));
  switch (op % 14) {
    case 0: acc = (long)c.size() + (c.empty() ? 1 : 0); break;
    case 1: for (typename S::const_iterator it = c.begin(); it != c.end(); ++it) acc += key_of(*it); break;
    case 2: for (typename S::const_reverse_iterator it = c.rbegin(); it != c.rend(); ++it) acc += pad_of(*it); break;
    case 3: acc = (c.find(k) != c.end()) + 2 * c.contains(k) + 4 * (long)c.count(k); break;
    case 4: acc = (c == mine) + 2 * (c != mine); break;
    case 5: acc = (c < mine) + 2 * (c <= mine) + 4 * (c > mine) + 8 * (c >= mine); break;
    case 6: { S copy(c); acc = (long)copy.size(); } break;
    case 7: { S copy; copy = c; acc = (long)copy.size(); } break;
    case 8: acc = (long)c.max_size() % 5 + (c.cbegin() == c.begin()); break;
    case 9: acc = hetero_lookup(c, (int)(arg % (unsigned)g_keyDom)); break;
    case 10: { S copy(c.begin(), c.end()); acc = (long)copy.size(); } break;                      // range construction from the shared set's iterators
    case 11: { S other(mine); other.insert(c.begin(), c.end()); acc = (long)other.size(); } break;
    case 12: { typename S::key_compare kc = c.key_comp(); typename S::value_compare vc = c.value_comp(); acc = kc(k, k) + vc(k, k); (void)c.get_allocator(); } break;
    default: (void)flat; acc = (c.find(k) == c.end()) + (mine == c) + (mine < c); break;
  }
  return acc;
}
template <class S>
static long flat_at_oor(const S &c, unsigned arg) {
  try { return key_of(c.at((typename S::size_type)(c.size() + arg % 2))); } catch (const std::out_of_range &) { return -1; }
}
template <class S>
static long flat_extra_op(const S &c, unsigned arg) {
  typedef typename S::value_type T;
  T k((int)(arg % (unsigned)g_keyDom));
  std::pair<typename S::const_iterator, typename S::const_iterator> pr = c.equal_range(k);
  return (long)(c.lower_bound(k) - c.begin()) + (long)(c.upper_bound(k) - c.begin()) + (long)(pr.second - pr.first) +
         (c.empty() ? 0 : key_of(c.front()) + key_of(c.back()) + key_of(c[0]) + key_of(c.data()[0]) + key_of(c.at(0))) + (long)c.capacity() + hetero_bounds(c, (int)(arg % (unsigned)g_keyDom));
}
template <class S>
static void set_writer_op(S &mine, S &mine2, const S &shared, unsigned op, unsigned arg) {
  typedef typename S::value_type T;
  switch (op % 16) {
    case 0: case 1: mine.insert(T((int)(arg % (unsigned)g_keyDom))); break;
    case 2: mine.erase(T((int)(arg % (unsigned)g_keyDom))); break;
    case 3: if (!mine.empty()) mine.erase(mine.begin()); break;
    case 4: mine.emplace((int)(arg % (unsigned)g_keyDom)); break;
    case 5: mine.clear(); break;
    case 6: mine.swap(mine2); break;
    case 7: mine = std::move(mine2); mine2.clear(); break;
    case 8: mine2 = mine; break;
    case 9: mine = shared; break;                                                                  // copy assignment from the shared set (a const use of it)
    case 10: mine.insert(shared.begin(), shared.end()); break;                                    // bulk path fed from the shared set's iterators
    case 11: mine.merge(mine2); break;
    case 12: { typename S::node_type nh = mine.extract(T((int)(arg % (unsigned)g_keyDom))); if (!nh.empty()) mine2.insert(std::move(nh)); } break;
    case 13: mine.emplace_hint(mine.begin(), (int)(arg % (unsigned)g_keyDom)); break;
    case 14: { T vals[5] = {T((int)(arg % (unsigned)g_keyDom)), T((int)(arg % 7)), T(3), T((int)(arg % (unsigned)g_keyDom)), T(39)}; mine.insert(vals, vals + 5); } break;
    default: if (!mine.empty()) mine.erase(mine.begin(), mine.end()); break;
  }
}

// ------------------------------------------------------------------------------------------------ one run
struct Footprint {
  std::vector<std::pair<const char *, size_t>> ranges;
  std::vector<unsigned char> snap;
  void add(const void *p, size_t n) { if (p && n) ranges.push_back(std::make_pair((const char *)p, n)); }
  void take(std::vector<unsigned char> &out) const {
    out.clear();
    for (size_t i = 0; i < ranges.size(); ++i) out.insert(out.end(), ranges[i].first, ranges[i].first + ranges[i].second);
  }
};
template <class V>
static void footprint_vec(const V &c, Footprint &f) {
  f.add(&c, sizeof(V));
  const char *d = (const char *)c.data();
  if (d && !(d >= (const char *)&c && d < (const char *)(&c + 1))) f.add(d, (size_t)c.capacity() * sizeof(typename V::value_type));
}
template <class S>
static void footprint_set(const S &c, Footprint &f) {
  f.add(&c, sizeof(S));
  // element storage: every element's bytes (covers inline storage, vector buffers and tree nodes' payloads)
  for (typename S::const_iterator it = c.begin(); it != c.end(); ++it) f.add(&*it, sizeof(typename S::value_type));
}

// bring a private container into another internal state with the same contents: grow it well beyond any inline capacity, then shrink
// it back by erasing what was added (a SmallSet stays in its large state, a SmallVector keeps its heap buffer)
template <class C>
static auto other_state(C &c) -> decltype(c.push_back(typename C::value_type(0)), void()) {
  typedef typename C::value_type T;
  size_t n = (size_t)c.size();
  if (n + 12 > (size_t)c.max_size()) return;
  for (int i = 0; i < 12; ++i) c.push_back(T(1000 + i));
  while ((size_t)c.size() > n) c.pop_back();
}
template <class C>
static auto other_state(C &c) -> decltype(c.insert(typename C::value_type(0)), void()) {
  typedef typename C::value_type T;
  if ((size_t)c.size() + 12 > (size_t)c.max_size()) return;
  for (int i = 0; i < 12; ++i) c.insert(T(100000 + i));
  for (int i = 0; i < 12; ++i) c.erase(T(100000 + i));
}

struct RunResult {
  unsigned ops;
  bool bytesChanged;
  uint64_t schedHash;  // readers, writers, every script and the release order (what distinguishes one schedule from another)
};

template <class C, class ReaderFn, class WriterFn, class FootFn>
static RunResult run_threads(uint64_t seed, const C &shared, ReaderFn readerOp, WriterFn writerOp, FootFn foot, bool verbose) {
  Rng r(seed);
  int R = 2 + (int)r.below(5), W = (int)r.below(4);
  int N = R + W;
  std::vector<std::vector<std::pair<unsigned, unsigned>>> scripts(N);
  for (int i = 0; i < N; ++i) {
    unsigned len = 3 + r.below(18);
    for (unsigned k = 0; k < len; ++k) scripts[i].push_back(std::make_pair((unsigned)r.next(), (unsigned)r.next()));
  }
  Footprint fp;
  foot(shared, fp);
  std::vector<unsigned char> before, after;
  fp.take(before);
  for (size_t i = 0; i < fp.ranges.size(); ++i) fprintf(stderr, "FOOTPRINT %p %zu\n", (const void *)fp.ranges[i].first, fp.ranges[i].second);
  Sched sch;
  std::vector<std::thread> threads;
  for (int i = 0; i < N; ++i) {
    threads.emplace_back([&, i]() {
      C mine(shared);  // thread-private containers (copy-construction from the shared one is itself a const operation)
      C mine2;
      if ((scripts[i][0].first >> 20) & 1) other_state(mine);  // same contents, another internal state (e.g. a SmallSet that has been large)
      long acc = 0;
      const std::vector<std::pair<unsigned, unsigned>> &sc = scripts[i];
      for (size_t k = 0; k < sc.size(); ++k) {
        sch.wait_turn(i);
        if (i < R) acc += readerOp(shared, mine, sc[k].first, sc[k].second);
        else writerOp(mine, mine2, shared, sc[k].first, sc[k].second);
        sch.yield_back(k + 1 == sc.size());
      }
      IGN_BEGIN();
      g_sink += acc;
      IGN_END();
    });
  }
  // seeded release order
  std::vector<size_t> pos(N, 0);
  unsigned ops = 0;
  std::string order;
  uint64_t sh = mix64((uint64_t)R, (uint64_t)W);
  for (int i = 0; i < N; ++i)
    for (size_t k = 0; k < scripts[i].size(); ++k) sh = mix64(sh, ((uint64_t)scripts[i][k].first << 32) | scripts[i][k].second);
  while (true) {
    std::vector<int> live;
    for (int i = 0; i < N; ++i) if (pos[i] < scripts[i].size()) live.push_back(i);
    if (live.empty()) break;
    int pick = live[r.below((unsigned)live.size())];
    ++pos[pick];
    ++ops;
    sh = mix64(sh, (uint64_t)pick);
    if (verbose) { char b[16]; snprintf(b, sizeof b, "%s%c%d", order.empty() ? "" : " ", pick < R ? 'r' : 'w', pick); order += b; }
    sch.release(pick);
  }
  for (size_t i = 0; i < threads.size(); ++i) threads[i].join();
  fp.take(after);
  if (verbose) printf("SCHEDULE readers=%d writers=%d order=%s\n", R, W, order.c_str());
  RunResult res;
  res.ops = ops;
  res.bytesChanged = before != after;
  res.schedHash = sh;
  return res;
}

template <class V>
static RunResult vec_case(uint64_t seed, unsigned fill, bool reserveFirst, size_t room, bool verbose) {
  typedef typename V::value_type T;
  V shared;
  g_keyDom = 40;
  if (reserveFirst) shared.reserve((typename V::size_type)(room < 12 ? room : 12));
  for (unsigned i = 0; i < fill && i < room; ++i) shared.push_back(T((int)(i * 7 % 40)));
  return run_threads(seed, shared, [](const V &c, const V &m, unsigned op, unsigned a) { return vec_reader_op(c, m, op, a); },
                     [room](V &m, V &m2, const V &sh, unsigned op, unsigned a) { vec_writer_op(m, m2, sh, op, a, room); }, [](const V &c, Footprint &f) { footprint_vec(c, f); }, verbose);
}
template <class S>
static RunResult set_case(uint64_t seed, unsigned fill, bool verbose) {
  typedef typename S::value_type T;
  S shared;
  g_keyDom = fill > 30 ? (int)fill * 2 : 40;
  for (unsigned i = 0; i < fill; ++i) shared.insert(T((int)(i * 11 % (unsigned)g_keyDom)));
  return run_threads(seed, shared, [](const S &c, const S &m, unsigned op, unsigned a) { return set_reader_op(c, m, op, a, false); },
                     [](S &m, S &m2, const S &sh, unsigned op, unsigned a) { set_writer_op(m, m2, sh, op, a); }, [](const S &c, Footprint &f) { footprint_set(c, f); }, verbose);
}
// FlatSet: bounds, positional access and (under a transparent comparator) heterogeneous lookups on top of the common set operations
template <class FS>
static RunResult flat_case(uint64_t seed, unsigned fill, bool verbose) {
  typedef typename FS::value_type T;
  FS shared;
  g_keyDom = fill > 30 ? (int)fill * 2 : 40;
  for (unsigned i = 0; i < fill; ++i) shared.insert(T((int)(i * 11 % (unsigned)g_keyDom)));
  return run_threads(seed, shared, [](const FS &c, const FS &m, unsigned op, unsigned a) { return (op >> 8) % 3 == 0 ? flat_extra_op(c, a) : set_reader_op(c, m, op, a, true); },
                     [](FS &m, FS &m2, const FS &sh, unsigned op, unsigned a) { set_writer_op(m, m2, sh, op, a); }, [](const FS &c, Footprint &f) { footprint_set(c, f); }, verbose);
}

typedef amc::allocator<Item> AL;
typedef amc::allocator<int> ALI;
typedef amc::FlatSet<Item, std::less<Item>, AL> FSet;
typedef amc::FlatSet<int, std::less<int>, ALI> FSetI;
static const char *kKinds[] = {"vector", "SmallVector<4> inline", "SmallVector<4> heap", "FixedCapacityVector<8>", "FlatSet", "SmallSet<4> inline", "SmallSet<4> large",
                               "SmallSet<4,FlatSet> inline", "SmallSet<4,FlatSet> large", "FlatSet<SmallVector<4>>",
                               "vector<int>", "SmallVector<int,6> inline", "SmallVector<int,2> heap", "vector<std::allocator>", "FlatSet<less<>> transparent",
                               "FlatSet<int>", "SmallSet<int,3> inline", "SmallSet<int,3> large", "SmallSet<int,5,FlatSet> large", "FlatSet<FixedCapacityVector<96>>",
                               "SmallSet<3,less<>> inline", "SmallSet<3,less<>> large", "vector<u64 size_type>", "FixedCapacityVector<int,16>",
                               "FlatSet 64..400 elements", "FlatSet<int> 64..600 elements", "vector<int> buffer >= 128 KiB", "SmallSet<int,3,FlatSet> 64..300 elements",
                               "FlatSet<less<>> 64..300 elements"};
static const int kNKinds = 29;

static RunResult run_one(uint64_t seed, int &kind, bool verbose) {
  Rng r(seed ^ 0xC20);
  kind = (int)r.below(kNKinds);
  unsigned f = r.below(4);
  switch (kind) {
    case 0: return vec_case<amc::vector<Item, AL>>(seed, 1 + r.below(12), r.below(2) != 0, 40, verbose);
    case 1: return vec_case<amc::SmallVector<Item, 4, AL>>(seed, f + 1, false, 40, verbose);
    case 2: return vec_case<amc::SmallVector<Item, 4, AL>>(seed, 5 + r.below(8), false, 40, verbose);
    case 3: return vec_case<amc::FixedCapacityVector<Item, 8>>(seed, 1 + r.below(8), false, 8, verbose);
    case 4: return flat_case<FSet>(seed, 1 + r.below(20), verbose);
    case 5: return set_case<amc::SmallSet<Item, 4, std::less<Item>, AL>>(seed, 1 + f, verbose);
    case 6: return set_case<amc::SmallSet<Item, 4, std::less<Item>, AL>>(seed, 6 + r.below(10), verbose);
    case 7: return set_case<amc::SmallSet<Item, 4, std::less<Item>, AL, FSet>>(seed, 1 + f, verbose);
    case 8: return set_case<amc::SmallSet<Item, 4, std::less<Item>, AL, FSet>>(seed, 6 + r.below(10), verbose);
    case 9: return flat_case<amc::FlatSet<Item, std::less<Item>, AL, amc::SmallVector<Item, 4, AL>>>(seed, 1 + r.below(9), verbose);
    case 10: return vec_case<amc::vector<int, ALI>>(seed, 1 + r.below(20), r.below(2) != 0, 40, verbose);
    case 11: return vec_case<amc::SmallVector<int, 6, ALI>>(seed, 1 + r.below(6), false, 40, verbose);
    case 12: return vec_case<amc::SmallVector<int, 2, ALI>>(seed, 3 + r.below(12), false, 40, verbose);
    case 13: return vec_case<amc::vector<Item, std::allocator<Item>>>(seed, 1 + r.below(12), r.below(2) != 0, 40, verbose);
    case 14: return flat_case<amc::FlatSet<Item, std::less<>, AL>>(seed, 1 + r.below(20), verbose);
    case 15: return flat_case<FSetI>(seed, 1 + r.below(30), verbose);
    case 16: return set_case<amc::SmallSet<int, 3, std::less<int>, ALI>>(seed, 1 + r.below(3), verbose);
    case 17: return set_case<amc::SmallSet<int, 3, std::less<int>, ALI>>(seed, 4 + r.below(12), verbose);
    case 18: return set_case<amc::SmallSet<int, 5, std::less<int>, ALI, FSetI>>(seed, 6 + r.below(12), verbose);
    case 19: return flat_case<amc::FlatSet<Item, std::less<Item>, amc::vec::EmptyAlloc, amc::FixedCapacityVector<Item, 96>>>(seed, 1 + r.below(12), verbose);
    case 20: return set_case<amc::SmallSet<Item, 3, std::less<>, AL>>(seed, 1 + r.below(3), verbose);
    case 21: return set_case<amc::SmallSet<Item, 3, std::less<>, AL>>(seed, 4 + r.below(10), verbose);
    case 22: return vec_case<amc::vector<Item, AL, uint64_t>>(seed, 1 + r.below(12), r.below(2) != 0, 40, verbose);
    case 23: return vec_case<amc::FixedCapacityVector<int, 16>>(seed, 1 + r.below(16), false, 16, verbose);
    // larger containers: code paths that only exist from a size on (caches, thresholds), and buffers large enough for an allocator to treat specially
    case 24: return flat_case<FSet>(seed, 64 + r.below(337), verbose);
    case 25: return flat_case<FSetI>(seed, 64 + r.below(537), verbose);
    case 26: return vec_case<amc::vector<int, ALI>>(seed, 33000 + r.below(9000), false, 50000, verbose);
    case 27: return set_case<amc::SmallSet<int, 3, std::less<int>, ALI, FSetI>>(seed, 64 + r.below(237), verbose);
    default: return flat_case<amc::FlatSet<Item, std::less<>, AL>>(seed, 64 + r.below(237), verbose);
  }
}

int main(int argc, char **argv) {
  setvbuf(stdout, nullptr, _IOLBF, 0);
  setvbuf(stderr, nullptr, _IOLBF, 0);
  if (argc < 4) return 2;
  std::string cmd = argv[1];
  uint64_t base = strtoull(argv[2], nullptr, 10);
  if (cmd == "one") {
    unsigned i = (unsigned)atoi(argv[3]);
    bool verbose = argc > 4;
    int kind = 0;
    fprintf(stderr, "RUN %u seed %llu\n", i, (unsigned long long)mix64(base, i));
    RunResult rr = run_one(mix64(base, i), kind, verbose);
    fprintf(stderr, "ENDRUN %u\n", i);
    printf("R %u kind=%s ops=%u bytes_changed=%d\n", i, kKinds[kind], rr.ops, (int)rr.bytesChanged);
    return 0;
  }
  if (cmd == "run" && argc >= 5) {
    uint64_t start = strtoull(argv[3], nullptr, 10), count = strtoull(argv[4], nullptr, 10);
    double maxSecs = argc > 5 ? atof(argv[5]) : 1e9;
    unsigned stride = argc > 6 ? (unsigned)atoi(argv[6]) : 1;
    std::chrono::steady_clock::time_point t0 = std::chrono::steady_clock::now();
    unsigned long runs = 0, ops = 0;
    unsigned long perKind[32] = {0};
    for (uint64_t k = 0; k < count; ++k) {
      uint64_t i = start + k * stride;
      int kind = 0;
      fprintf(stderr, "RUN %llu seed %llu\n", (unsigned long long)i, (unsigned long long)mix64(base, i));
      RunResult rr = run_one(mix64(base, i), kind, false);
      fprintf(stderr, "ENDRUN %llu\n", (unsigned long long)i);
      ++runs; ops += rr.ops; ++perKind[kind];
      printf("H %llu %d %016llx %u\n", (unsigned long long)i, kind, (unsigned long long)rr.schedHash, rr.ops);
      if (rr.bytesChanged) printf("B %llu kind=%s the bytes of the shared container changed during the reader phase\n", (unsigned long long)i, kKinds[kind]);
      double secs = std::chrono::duration<double>(std::chrono::steady_clock::now() - t0).count();
      if (secs > maxSecs) break;
    }
    double secs = std::chrono::duration<double>(std::chrono::steady_clock::now() - t0).count();
    printf("STATS {\"runs\":%lu,\"ops\":%lu,\"secs\":%.3f,\"kinds\":{", runs, ops, secs);
    for (int k = 0; k < kNKinds; ++k) printf("%s\"%s\":%lu", k ? "," : "", kKinds[k], perKind[k]);
    printf("}}\nDONE runs=%lu\n", runs);
    return 0;
  }
  return 2;
}
