// SimHeap: the simulated byte allocator behind every allocator seam.
// Deterministic placement (decided by the run's environment stream), red zones with canaries, a ledger
// (pointer -> bytes / count / domain / live) and fault injection.
#pragma once
#include <cstdint>
#include <cstring>
#include <map>
#include <string>
#include <vector>

#include "core.hpp"

#if defined(__SANITIZE_ADDRESS__)
#define SIM_ASAN 1
#elif defined(__has_feature)
#if __has_feature(address_sanitizer)
#define SIM_ASAN 1
#endif
#endif
#ifdef SIM_ASAN
extern "C" void __asan_poison_memory_region(void const volatile *addr, size_t size);
extern "C" void __asan_unpoison_memory_region(void const volatile *addr, size_t size);
#define SIM_POISON(p, n) __asan_poison_memory_region((p), (n))
#define SIM_UNPOISON(p, n) __asan_unpoison_memory_region((p), (n))
#else
#define SIM_POISON(p, n) ((void)0)
#define SIM_UNPOISON(p, n) ((void)0)
#endif

namespace sim {

enum AllocDomain { DOM_BASIC = 1, DOM_STD = 2, DOM_REALLOC = 3, DOM_MALLOC = 4 };
inline const char *domain_name(int d) {
  switch (d) {
    case DOM_BASIC: return "basic";
    case DOM_STD: return "std";
    case DOM_REALLOC: return "realloc";
    case DOM_MALLOC: return "malloc";
  }
  return "?";
}

class SimHeap {
 public:
  static const size_t kRed = 32;
  static const size_t kAlign = 32;
  static const size_t kArena = size_t(192) << 20;

  struct Block {
    size_t off;       // payload offset in arena
    size_t phys;      // physical payload room (>= bytes)
    size_t bytes;     // logical size
    size_t count;     // element count as seen by the allocator interface (0 for byte interfaces)
    size_t elemSize;  // sizeof(value_type) for typed interfaces, 0 otherwise
    int domain;
    bool live;
    int bornOp;
  };

  SimHeap();
  void reset();  // per run

  // raw interface; never throws, returns nullptr on injected failure if nothrowOnFault, else throws bad_alloc
  void *allocate(size_t bytes, size_t count, size_t elemSize, int domain, bool nullOnFault);
  void deallocate(void *p, size_t bytes, size_t count, size_t elemSize, int domain, bool sizeKnown);
  // byte realloc (contents preserved up to min(old,new)); oldBytesKnown=false for the malloc domain
  void *reallocate(void *p, size_t oldBytes, size_t newBytes, size_t newCount, size_t elemSize, int domain,
                   bool oldKnown, bool nullOnFault);

  bool owns(const void *p) const {
    return (const char *)p >= base_ && (const char *)p < base_ + kArena;
  }
  long offset_of(const void *p) const { return p ? (long)((const char *)p - base_) : -1; }
  const Block *find_live(const void *p) const;
  // the live block that contains address p (payload), or null
  const Block *containing(const void *p) const;
  size_t live_blocks() const { return liveByOff_.size(); }
  size_t live_bytes() const;
  void check_canaries();     // all live blocks
  void check_no_leak(const char *when);
  std::string describe_live() const;

 private:
  char *base_;
  size_t bump_;
  std::vector<Block> blocks_;
  std::map<size_t, int> liveByOff_;
  std::vector<int> freeList_;
  void set_canaries(const Block &b);
  bool canaries_ok(const Block &b, bool *front) const;
  int place(size_t bytes);
  void log(const char *kind, size_t count, long off);
};

extern SimHeap g_heap;

}  // namespace sim
