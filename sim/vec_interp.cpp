#include "vec_interp.hpp"

#include <algorithm>
#include <cmath>
#include <cstdlib>
#include <cstring>

#include "elems.hpp"
#include "simalloc.hpp"
#include "simheap.hpp"
#include "streams.hpp"

namespace sim {

ElemLedger g_elems;
ReallocExpect g_reallocExpect = {false, 0, {0, 0}, 0};
unsigned g_zeroSign = 0;
unsigned g_pairVariant = 0;

// ------------------------------------------------------------------------------------------------ names / registry
static const char *kVecOpNames[] = {
#define X(n) #n,
    SIM_VEC_OPS(X)
#undef X
};
const char *vec_op_name(int k) { return (k >= 0 && k < V_NKINDS) ? kVecOpNames[k] : "?"; }
int vec_op_kind(const std::string &name) {
  for (int k = 0; k < V_NKINDS; ++k)
    if (name == kVecOpNames[k]) return k;
  return -1;
}
static std::vector<VecFamily *> &families_mut() {
  static std::vector<VecFamily *> f;
  return f;
}
void register_vec_family(VecFamily *f) { families_mut().push_back(f); }
const std::vector<VecFamily *> &vec_families() { return families_mut(); }
const VecFamily *find_vec_family(const std::string &name) {
  for (VecFamily *f : families_mut())
    if (f->name == name) return f;
  return nullptr;
}

// ------------------------------------------------------------------------------------------------ op classification
static bool is_alias(int k) { return k >= V_ALIAS_PUSH && k <= V_ALIAS_APPEND; }
static bool is_ctor(int k) { return k >= V_CTOR_DEFAULT && k <= V_CTOR_FROM_VEC; }
static bool is_binary(int k) {
  return k == V_COPY_ASSIGN || k == V_MOVE_ASSIGN || k == V_SWAP || k == V_SWAP2 || k == V_CTOR_COPY || k == V_CTOR_MOVE ||
         k == V_CTOR_FROM_VEC || k == V_COMPARE;
}
static bool is_macro(int k) {
  return k == V_FILL_TO_N || k == V_FILL_TO_CAP || k == V_FILL_TO_LIMIT_MINUS || k == V_GROW_PAST_N || k == V_DRAIN || k == V_APPEND_LOOP;
}
static bool needs_extras(int k) {
  return k == V_POP_BACK_VAL || k == V_APPEND_RANGE || k == V_APPEND_N || k == V_APPEND_NV || k == V_APPEND_IL || k == V_SWAP2 ||
         k == V_ALIAS_APPEND;
}
// operations after which capacity may legitimately be smaller (C07)
static bool may_shrink(int k) {
  return k == V_SHRINK || k == V_MOVE_ASSIGN || k == V_SWAP || k == V_SWAP2 || is_ctor(k) || k == V_RELOCATE;
}
// strong exception guarantee documented (C09); atEnd: insertion position == size
static bool is_strong(int k, bool atEnd, bool grows, const VecType &t) {
  bool movesNoexcept = t.elemTR || t.elemNoexceptMove;
  switch (k) {
    case V_PUSH_COPY: case V_PUSH_MOVE: case V_EMPLACE_BACK: case V_ALIAS_PUSH: case V_ALIAS_EMPLACE_BACK: case V_ALIAS_EMPLACE_BACK_ARG:
      return true;
    case V_INSERT_COPY: case V_INSERT_MOVE: case V_EMPLACE: case V_ALIAS_INSERT: case V_ALIAS_EMPLACE: case V_ALIAS_EMPLACE_ARG:
    case V_APPEND_RANGE: case V_APPEND_N: case V_APPEND_NV: case V_APPEND_IL: case V_ALIAS_APPEND: case V_RESERVE: case V_SHRINK:
      return movesNoexcept;
    case V_INSERT_N: case V_INSERT_RANGE: case V_INSERT_IL: case V_ALIAS_INSERT_N:
      return movesNoexcept && atEnd;
    case V_RESIZE: case V_RESIZE_V: case V_ALIAS_RESIZE:
      return movesNoexcept && grows;
    default:
      return false;
  }
}

static int state_class(const VecType &t, const VecObs &o) {
  switch (t.flavour) {
    case FL_FIXED: return o.size == 0 ? 0 : (o.size == o.capacity ? 2 : 1);
    case FL_SMALL:
      if (o.inside) return o.size == 0 ? 3 : (o.size >= t.N ? 5 : 4);
      if (o.size == 0) return 6;
      if (o.size == o.capacity) return 9;
      return o.size <= t.N ? 7 : 8;
    default:
      if (!o.data) return 10;
      if (o.size == 0) return 11;
      return o.size == o.capacity ? 13 : 12;
  }
}
static const char *state_class_name(int c) {
  static const char *n[] = {"fixed_empty", "fixed_partial", "fixed_full", "inline_empty", "inline_partial", "inline_full", "heap_empty",
                            "heap_leN", "heap_gtN", "heap_full", "null", "stdheap_empty", "stdheap_partial", "stdheap_full"};
  return n[c];
}

// ------------------------------------------------------------------------------------------------ profiles
static void set_all(VecProfile &p, unsigned w) { for (int k = 0; k < V_NKINDS; ++k) p.w[k] = w; }
static std::vector<VecProfile> build_profiles() {
  std::vector<VecProfile> ps;
  {  // general histories: C01 C02 C06 C07
    VecProfile p; p.name = "hist"; set_all(p, 10);
    p.w[V_PUSH_COPY] = p.w[V_PUSH_MOVE] = p.w[V_EMPLACE_BACK] = 25;
    p.w[V_ERASE_RANGE] = 20; p.w[V_MOVE_ASSIGN] = 20; p.w[V_COPY_ASSIGN] = 15; p.w[V_SWAP] = 15;
    p.w[V_FILL_TO_N] = 12; p.w[V_FILL_TO_CAP] = 12; p.w[V_GROW_PAST_N] = 8; p.w[V_DRAIN] = 4; p.w[V_CLEAR] = 6;
    p.w[V_INSERT_RANGE] = 20; p.w[V_ASSIGN_RANGE] = 15; p.w[V_APPEND_RANGE] = 12; p.w[V_CTOR_RANGE] = 8;
    p.w[V_FILL_TO_LIMIT_MINUS] = 3; p.w[V_APPEND_LOOP] = 4; p.w[V_RELOCATE] = 0; p.w[V_SWAP2] = 8;
    for (int k = V_ALIAS_PUSH; k <= V_ALIAS_APPEND; ++k) p.w[k] = 2;
    p.w[V_AT_OOR] = 3;
    ps.push_back(p);
  }
  {  // inline promise: C05
    VecProfile p; p.name = "inline"; set_all(p, 6);
    p.smallBias = 85; p.meanLen = 18;
    p.w[V_MOVE_ASSIGN] = 40; p.w[V_COPY_ASSIGN] = 25; p.w[V_SWAP] = 30; p.w[V_SWAP2] = 15; p.w[V_CTOR_COPY] = 15; p.w[V_CTOR_MOVE] = 20;
    p.w[V_FILL_TO_N] = 30; p.w[V_PUSH_COPY] = p.w[V_PUSH_MOVE] = p.w[V_EMPLACE_BACK] = 25; p.w[V_POP_BACK] = 15; p.w[V_ERASE1] = 12;
    p.w[V_SHRINK] = 10; p.w[V_CLEAR] = 8; p.w[V_GROW_PAST_N] = 3; p.w[V_FILL_TO_CAP] = 8; p.w[V_RESERVE] = 4;
    p.w[V_RELOCATE] = 0; p.w[V_APPEND_LOOP] = 0; p.w[V_FILL_TO_LIMIT_MINUS] = 0;
    for (int k = V_ALIAS_PUSH; k <= V_ALIAS_APPEND; ++k) p.w[k] = 1;
    ps.push_back(p);
  }
  {  // capacity limits: C08
    VecProfile p; p.name = "limit"; set_all(p, 4);
    p.overshootPct = 70; p.meanLen = 14;
    p.w[V_FILL_TO_LIMIT_MINUS] = 60; p.w[V_FILL_TO_CAP] = 10;
    int grow[] = {V_PUSH_COPY, V_PUSH_MOVE, V_EMPLACE_BACK, V_INSERT_COPY, V_INSERT_MOVE, V_INSERT_N, V_INSERT_RANGE, V_INSERT_IL, V_EMPLACE,
                  V_RESIZE, V_RESIZE_V, V_ASSIGN_N, V_ASSIGN_RANGE, V_APPEND_RANGE, V_APPEND_N, V_APPEND_NV, V_APPEND_IL, V_CTOR_N, V_CTOR_NV,
                  V_CTOR_RANGE, V_RESERVE, V_AT_OOR, V_COPY_ASSIGN, V_SWAP2};
    for (int k : grow) p.w[k] = 25;
    for (int k = V_ALIAS_PUSH; k <= V_ALIAS_APPEND; ++k) p.w[k] = 4;
    p.w[V_POP_BACK] = 12; p.w[V_ERASE1] = 10; p.w[V_ERASE_RANGE] = 10;
    p.w[V_RELOCATE] = 0; p.w[V_APPEND_LOOP] = 2; p.w[V_DRAIN] = 2; p.w[V_CLEAR] = 2;
    ps.push_back(p);
  }
  {  // fault sequences inside histories: C09 mode B
    VecProfile p = ps[0]; p.name = "fault"; p.faultPermille = 140;
    p.w[V_INSERT_N] = 25; p.w[V_INSERT_RANGE] = 25; p.w[V_ASSIGN_N] = 20; p.w[V_ASSIGN_RANGE] = 20; p.w[V_RESIZE] = 15; p.w[V_RESIZE_V] = 15;
    p.w[V_RESERVE] = 12; p.w[V_SHRINK] = 12; p.w[V_CTOR_COPY] = 15; p.w[V_COPY_ASSIGN] = 20; p.w[V_EMPLACE] = 20; p.w[V_INSERT_COPY] = 20;
    p.w[V_AT_OOR] = 1; p.w[V_APPEND_LOOP] = 1;
    ps.push_back(p);
  }
  {  // alias arguments: C10 (micro histories)
    VecProfile p; p.name = "alias"; set_all(p, 0);
    p.meanLen = 4; p.maxLen = 12; p.swarm = false; p.room = 12;
    for (int k = V_ALIAS_PUSH; k <= V_ALIAS_APPEND; ++k) p.w[k] = 40;
    p.w[V_PUSH_COPY] = 20; p.w[V_EMPLACE_BACK] = 20; p.w[V_FILL_TO_CAP] = 25; p.w[V_FILL_TO_N] = 15; p.w[V_RESERVE] = 25; p.w[V_SHRINK] = 10;
    p.w[V_POP_BACK] = 15; p.w[V_ERASE1] = 8; p.w[V_CLEAR] = 3; p.w[V_GROW_PAST_N] = 6; p.w[V_MOVE_ASSIGN] = 4; p.w[V_SWAP] = 4;
    ps.push_back(p);
  }
  {  // swap2: C13
    VecProfile p; p.name = "swap2"; set_all(p, 3);
    p.meanLen = 10; p.maxLen = 60; p.overshootPct = 50;
    p.w[V_SWAP2] = 120; p.w[V_FILL_TO_N] = 30; p.w[V_FILL_TO_CAP] = 25; p.w[V_GROW_PAST_N] = 25; p.w[V_DRAIN] = 12; p.w[V_CLEAR] = 12;
    p.w[V_POP_BACK] = 20; p.w[V_PUSH_MOVE] = 25; p.w[V_EMPLACE_BACK] = 15; p.w[V_RESERVE] = 15; p.w[V_SHRINK] = 12; p.w[V_ERASE_RANGE] = 10;
    p.w[V_FILL_TO_LIMIT_MINUS] = 8; p.w[V_INSERT_COPY] = 8; p.w[V_MOVE_ASSIGN] = 6; p.w[V_SWAP] = 6;
    p.w[V_RELOCATE] = 0; p.w[V_APPEND_LOOP] = 0;
    for (int k = V_ALIAS_PUSH; k <= V_ALIAS_APPEND; ++k) p.w[k] = 0;
    ps.push_back(p);
  }
  {  // relocate container by memcpy: C14
    VecProfile p = ps[0]; p.name = "reloc"; p.w[V_RELOCATE] = 70; p.meanLen = 20;
    for (int k = V_ALIAS_PUSH; k <= V_ALIAS_APPEND; ++k) p.w[k] = 0;
    ps.push_back(p);
  }
  {  // growth: C18
    VecProfile p; p.name = "growth"; set_all(p, 0);
    p.meanLen = 5; p.maxLen = 14; p.swarm = false; p.bigAppend = 1200; p.room = 6000;
    p.w[V_APPEND_LOOP] = 60; p.w[V_RESERVE] = 25; p.w[V_SHRINK] = 25; p.w[V_FILL_TO_N] = 10; p.w[V_GROW_PAST_N] = 10; p.w[V_CLEAR] = 8;
    p.w[V_POP_BACK] = 6; p.w[V_DRAIN] = 5; p.w[V_MOVE_ASSIGN] = 6; p.w[V_SWAP] = 4; p.w[V_ERASE_RANGE] = 5; p.w[V_PUSH_MOVE] = 8;
    p.w[V_CTOR_DEFAULT] = 5; p.w[V_CTOR_N] = 4;
    ps.push_back(p);
  }
  {  // growth, thorough: larger n
    VecProfile p = ps.back(); p.name = "growth_big"; p.bigAppend = 5000; p.room = 12000;
    ps.push_back(p);
  }
  {  // growth to millions of elements (small trivially copyable element types only: the simulated heap holds 192 MiB)
    VecProfile p; p.name = "growth_huge"; set_all(p, 0);
    p.meanLen = 3; p.maxLen = 6; p.swarm = false; p.bigAppend = 3600000; p.room = 1300000;
    p.w[V_APPEND_LOOP] = 60; p.w[V_RESERVE] = 6; p.w[V_SHRINK] = 10; p.w[V_CLEAR] = 4; p.w[V_PUSH_MOVE] = 6; p.w[V_CTOR_DEFAULT] = 6;
    ps.push_back(p);
  }
  // long variants (thorough tier): longer histories, larger containers
  size_t base = ps.size();
  for (size_t i = 0; i < base; ++i) {
    const std::string &n = ps[i].name;
    if (n == "hist" || n == "fault" || n == "inline" || n == "reloc" || n == "swap2" || n == "limit") {
      VecProfile p = ps[i];
      p.name = n + "_long"; p.meanLen = ps[i].meanLen * 4; p.maxLen = 400; p.room = ps[i].room * 2;
      ps.push_back(p);
    }
  }
  return ps;
}
static const std::vector<VecProfile> &profiles() {
  static std::vector<VecProfile> ps = build_profiles();
  return ps;
}
const VecProfile *vec_profile(const std::string &name) {
  for (const VecProfile &p : profiles())
    if (p.name == name) return &p;
  return nullptr;
}
std::vector<std::string> vec_profile_names() {
  std::vector<std::string> n;
  for (const VecProfile &p : profiles()) n.push_back(p.name);
  return n;
}

// ------------------------------------------------------------------------------------------------ generation
static void gen_pool(const VecFamily &fam, Rng &r, Plan &p) {
  unsigned K = (unsigned)fam.types.size();
  unsigned pool = 2 + r.below(4);
  unsigned t0 = r.below(K);
  for (unsigned i = 0; i < pool; ++i) p.types.push_back(r.chance(55, 100) ? t0 : r.below(K));
  if (pool >= 2 && p.types[0] != p.types[1] && r.chance(70, 100)) p.types[1] = p.types[0];  // same-type partners available
}
static Op gen_op(Rng &r, int id, int kind, const VecProfile &prof) {
  Op o;
  o.id = id; o.kind = kind;
  o.c = r.below(1000); o.d = r.below(1000);
  o.a = (unsigned)r.next(); o.b = (unsigned)r.next(); o.n = (unsigned)r.next();
  o.src = (int)r.below(SRC_NKINDS);
  o.self = r.below(20) == 3 ? 1 : 0;  // only meaningful for copy / move assignment and swap
  if (prof.faultPermille && r.below(1000) < prof.faultPermille && !is_macro(kind) && kind != V_RELOCATE) {
    o.fkind = r.chance(2, 3) ? F_ELEM : F_ALLOC;
    o.fk = o.fkind == F_ALLOC ? (int)r.below(2) : (int)(r.below(3) ? r.below(3) : r.below(12));
  }
  return o;
}
Plan gen_vec_plan(const VecFamily &fam, const VecProfile &prof, uint64_t runSeed) {
  Rng r(runSeed);
  Plan p;
  p.engine = "vec"; p.config = fam.name; p.profile = prof.name; p.seed = runSeed; p.env = r.next();
  gen_pool(fam, r, p);
  p.keyDom = 4 + r.below(61);
  // smallBias is encoded into cmpMode (unused by the vector engine otherwise): 1 = counts biased to stay within N
  p.cmpMode = (prof.smallBias && r.below(100) < prof.smallBias) ? 1 : 0;
  // ... 2 = a "big" run (about one run in twelve of the history profiles): counts and the soft size limit are ten times larger, so that
  // code paths that only exist from a size on (thresholds, other algorithms for large n) are reached in the quick tier as well
  if (!p.cmpMode && prof.swarm && prof.bigAppend <= 40 && r.chance(1, 12)) p.cmpMode = 2;
  unsigned w[V_NKINDS];
  unsigned long total = 0;
  for (int k = 0; k < V_NKINDS; ++k) {
    w[k] = prof.w[k];
    if (prof.swarm && w[k] && r.chance(1, 4)) w[k] = 0;              // swarm: drop a random subset of kinds
    else if (prof.swarm && w[k] && r.chance(1, 6)) w[k] *= 4;         // ... and boost another
    total += w[k];
  }
  if (!total) { for (int k = 0; k < V_NKINDS; ++k) { w[k] = prof.w[k]; total += w[k]; } }
  // geometric length
  unsigned len = prof.minLen;
  while (len < prof.maxLen && r.below(prof.meanLen) != 0) ++len;
  for (unsigned i = 0; i < len; ++i) {
    unsigned long x = r.next() % total;
    int kind = 0;
    for (; kind < V_NKINDS; ++kind) { if (x < w[kind]) break; x -= w[kind]; }
    p.ops.push_back(gen_op(r, (int)i, kind, prof));
  }
  return p;
}

Plan gen_vec_scenario(const VecFamily &fam, uint64_t runSeed) {
  const VecProfile &hist = *vec_profile("hist");
  Rng r(runSeed);
  Plan p;
  p.engine = "vec"; p.config = fam.name; p.profile = "scenario"; p.seed = runSeed; p.env = r.next();
  gen_pool(fam, r, p);
  p.keyDom = 4 + r.below(61);
  p.cmpMode = r.below(2);
  static const int prefixKinds[] = {V_PUSH_COPY, V_PUSH_MOVE, V_EMPLACE_BACK, V_FILL_TO_N, V_FILL_TO_CAP, V_GROW_PAST_N, V_RESERVE, V_SHRINK,
                                    V_POP_BACK, V_ERASE1, V_CLEAR, V_INSERT_COPY, V_MOVE_ASSIGN, V_SWAP, V_COPY_ASSIGN, V_INSERT_RANGE,
                                    V_CTOR_MOVE, V_DRAIN, V_RESIZE};
  static const int finalKinds[] = {V_PUSH_COPY, V_PUSH_MOVE, V_EMPLACE_BACK, V_INSERT_COPY, V_INSERT_MOVE, V_INSERT_N, V_INSERT_RANGE, V_INSERT_IL,
                                   V_EMPLACE, V_RESIZE, V_RESIZE_V, V_RESERVE, V_SHRINK, V_ASSIGN_N, V_ASSIGN_RANGE, V_ASSIGN_IL, V_APPEND_RANGE,
                                   V_APPEND_N, V_APPEND_NV, V_APPEND_IL, V_COPY_ASSIGN, V_CTOR_COPY, V_CTOR_N, V_CTOR_NV, V_CTOR_RANGE, V_CTOR_IL,
                                   V_SWAP2, V_ALIAS_PUSH, V_ALIAS_INSERT, V_ALIAS_INSERT_N, V_ALIAS_EMPLACE, V_ALIAS_RESIZE, V_ALIAS_ASSIGN,
                                   V_ALIAS_APPEND, V_ALIAS_EMPLACE_BACK};
  unsigned plen = r.below(13);
  for (unsigned i = 0; i < plen; ++i) {
    int kind = prefixKinds[r.below(sizeof prefixKinds / sizeof prefixKinds[0])];
    Op o = gen_op(r, (int)i, kind, hist);
    if (r.chance(2, 3)) o.c = 0;  // steer the prefix towards the target of the final operation
    p.ops.push_back(o);
  }
  Op fin = gen_op(r, (int)plen, finalKinds[r.below(sizeof finalKinds / sizeof finalKinds[0])], hist);
  fin.c = 0;
  p.ops.push_back(fin);
  return p;
}

// ------------------------------------------------------------------------------------------------ execution
namespace {

struct Slot {
  const VecType *type = nullptr;
  unsigned typeIdx = 0;
  void *obj = nullptr;
  std::vector<Val> model;
  bool mustInline = false;  // C05 promise currently in force
};

struct Runner {
  const Plan &plan;
  const VecFamily &fam;
  Stats *stats;
  std::vector<Slot> slots;
  int paygen = 0;
  int payMod = 0;
  bool relocExecuted = false;
  unsigned opsExecuted = 0;
  std::vector<std::string> sigOps;

  Runner(const Plan &p, const VecFamily &f, Stats *s) : plan(p), fam(f), stats(s) {}

  // Container objects live in harness-owned raw slots.  A slot is aligned for the container type and for nothing more: the block is
  // 256-aligned and the object is placed objAlign * k bytes into it (k = 0..3 in turn), so that a layout that silently depends on
  // a stronger alignment of `this` shows when the object is constructed or relocated somewhere else.
  std::vector<std::pair<void *, void *>> rawBlocks;  // (object address, block)
  unsigned rawCounter = 0;
  void *raw_alloc(const VecType &t) {
    size_t off = (rawCounter++ % 4) * t.objAlign;
    size_t sz = (off + t.objSize + 255) / 256 * 256;
    void *p = nullptr;
    if (posix_memalign(&p, 256, sz) != 0) abort();
    memset(p, 0xEE, sz);
    void *obj = (char *)p + off;
    rawBlocks.push_back(std::make_pair(obj, p));
    return obj;
  }
  void raw_free(void *obj) {
    for (size_t i = 0; i < rawBlocks.size(); ++i)
      if (rawBlocks[i].first == obj) { free(rawBlocks[i].second); rawBlocks.erase(rawBlocks.begin() + i); return; }
    abort();
  }

  bool arith = false;
  Val fresh(unsigned a, unsigned i) {
    ++paygen;
    int pay = payMod ? (paygen % payMod) + 1 : paygen;
    if (arith && (a + i + paygen) % 6 == 0) return Val{0, 0};  // arithmetic elements: zeros of both signs
    return Val{int((a + i * 7u) % plan.keyDom), pay};
  }

  // model-side conservation: everything the containers own
  size_t total_model_size() const {
    size_t s = 0;
    int mode = fam.types[0]->ledgerMode;
    for (const Slot &sl : slots) {
      if (mode == 2) { for (const Val &v : sl.model) s += (v.key != 0 || v.pay != 0) ? 1 : 0; }
      else s += sl.model.size() * (mode == 1 ? 2 : 1);
    }
    return s;
  }

  void viol(int kind, PropMask own, const std::string &what) { G.violate_ctx(kind, own, what); }

  // compare container with its model; returns false (and records) on mismatch
  bool check_slot(Slot &s, const char *when) {
    std::vector<Val> got;
    std::string err;
    VecObs o = s.type->observe(s.obj);
    if (o.size > o.capacity) { viol(VK_CAPACITY, P(7), std::string(when) + ": size() > capacity()"); return false; }
    if (o.capacity > o.maxSize) { viol(VK_CAPACITY, P(7), std::string(when) + ": capacity() > max_size()"); return false; }
    // the capacity word is the only record of the size a block was obtained with: it must describe the block data() designates
    if (o.data && !o.inside && s.type->allocDomain) {
      const SimHeap::Block *b = g_heap.find_live(o.data);
      if (!b) {
        viol(G.faultFired ? VK_FAULT : VK_ALLOC, P(6) | (G.faultFired ? P(9) : 0), std::string(when) + ": data() does not designate a live block of the allocator (buffer already returned, or never obtained)");
        return false;
      }
      if (b->bytes != o.capacity * s.type->elemSize) {
        char m[200];
        snprintf(m, sizeof m, "%s: capacity() is %zu but the buffer was obtained / last reallocated for %zu elements", when, o.capacity, b->bytes / s.type->elemSize);
        viol(G.faultFired ? VK_FAULT : VK_ALLOC, P(6) | (G.faultFired ? P(9) : 0), m);
        return false;
      }
    }
    if (!s.type->snapshot(s.obj, got, err)) { viol(VK_ELEM, P(2) | G.baseProps, std::string(when) + ": " + err); return false; }
    if (got.size() != s.model.size()) {
      char m[128];
      snprintf(m, sizeof m, "%s: size() is %zu, std::vector has %zu", when, got.size(), s.model.size());
      viol(VK_MODEL, G.baseProps, m);
      return false;
    }
    for (size_t i = 0; i < got.size(); ++i)
      if (got[i] != s.model[i]) {
        char m[160];
        snprintf(m, sizeof m, "%s: element [%zu] is %d:%d, std::vector has %d:%d", when, i, got[i].key, got[i].pay, s.model[i].key, s.model[i].pay);
        viol(VK_MODEL, G.baseProps, m);
        return false;
      }
    return true;
  }

  // comparison with the model that records nothing (used to refine the attribution of an already recorded violation)
  bool soft_equal(Slot &s) {
    VecObs o = s.type->observe(s.obj);
    if (o.size > o.capacity || o.size > (1u << 23)) return false;
    std::vector<Val> got;
    std::string err;
    if (!s.type->snapshot(s.obj, got, err)) return false;
    return got == s.model;
  }

  void check_inline(Slot &s) {
    if (!s.mustInline || G.viol.set()) return;
    const VecType &t = *s.type;
    VecObs o = t.observe(s.obj);
    if (o.capacity != t.N) {
      char m[160];
      snprintf(m, sizeof m, "capacity() is %zu although the vector never exceeded its inline capacity N=%u", o.capacity, t.N);
      G.violate(VK_INLINE, P(5), m);
    } else if (!o.inside && t.N) {
      G.violate(VK_INLINE, P(5), "elements are stored outside the object although the size never exceeded N");
    }
  }

  std::string contents_str(const Slot &s) const {
    std::string r;
    char b[32];
    size_t n = s.model.size();
    for (size_t i = 0; i < n && i < 24; ++i) { snprintf(b, sizeof b, "%s%d:%d", i ? " " : "", s.model[i].key, s.model[i].pay); r += b; }
    if (n > 24) { snprintf(b, sizeof b, " ..(%zu)", n); r += b; }
    return r;
  }

  void cell(int prop, uint64_t a, uint64_t b = 0, uint64_t c = 0, uint64_t d = 0, uint64_t e = 0) {
    if (stats) stats->cell(prop, ((((a * 64 + b) * 64 + c) * 64 + d) * 64) + e);
  }

  RunOut run(bool keepTranscript) {
    G.reset_run(plan.env);
    G.keepTranscript = keepTranscript;
    g_heap.reset();
    g_elems.reset();
    g_reallocExpect.known = false;
    g_zeroSign = 0;
    G.baseProps = P(1);
    slots.resize(plan.types.size());
    for (size_t i = 0; i < slots.size(); ++i) {
      Slot &s = slots[i];
      s.typeIdx = plan.types[i] % fam.types.size();
      s.type = fam.types[s.typeIdx];
      s.obj = raw_alloc(*s.type);
      s.type->construct(s.obj);
      s.mustInline = s.type->flavour == FL_SMALL;
      if (s.type->elemSize <= 4 || s.type->elemArith) payMod = 30000;
      if (s.type->elemSize <= 2) payMod = 120;  // one byte per field
      if (s.type->elemArith) arith = true;
    }
    {
      std::string hdr = "run config=" + fam.name + " pool=";
      for (Slot &s : slots) hdr += s.type->name + ";";
      G.tr(hdr);
    }
    for (size_t i = 0; i < plan.ops.size() && !G.viol.set(); ++i) step((int)i, plan.ops[i]);
    RunOut out;
    if (!G.viol.set()) teardown();
    else {
      for (Slot &s : slots) raw_free(s.obj);  // abandon (possibly corrupt) containers without running destructors
    }
    out.viol = G.viol;
    out.hash = G.trHash;
    out.opsExecuted = opsExecuted;
    out.relocExecuted = relocExecuted;
    if (keepTranscript) out.transcript = G.transcript;
    if (stats) {
      ++stats->runs;
      stats->ops += G.totOps; stats->allocEvents += G.totAllocEv; stats->elemEvents += G.totElemEv;
      stats->faultsFiredElem += G.faultsFiredElem; stats->faultsFiredAlloc += G.faultsFiredAlloc;
      stats->reallocMoved += G.reallocMoved; stats->reallocInPlace += G.reallocInPlace; stats->blockReused += G.blockReused;
      if (stats->hashes.size() < 200000) stats->hashes.insert(out.hash);
    }
    return out;
  }

  void teardown() {
    G.begin_op((int)plan.ops.size(), -1, 1 << 19, "teardown");
    for (Slot &s : slots) {
      s.type->destroy(s.obj);
      raw_free(s.obj);
      s.obj = nullptr;
    }
    if (G.viol.set()) return;
    if (g_elems.liveArmed != 0 || g_elems.liveHarness != 0) {
      char m[128];
      snprintf(m, sizeof m, "%ld element(s) still alive after every container was destroyed", g_elems.liveArmed + g_elems.liveHarness);
      G.violate(VK_ELEM, P(2), m);
    }
    g_heap.check_no_leak("after every container was destroyed");
    char b[64];
    snprintf(b, sizeof b, "teardown %s", G.allocLog.c_str());
    G.tr(b);
  }

  // ---------------------------------------------------------------------------------------------- interpretation
  // returns false for a recorded no-op
  bool interpret(const Op &op, Slot &s, Slot *w, IOp &io, int &expectThrow /*0 none, 1 oor, 2 ovf, 3 either*/, bool &lenientThrow) {
    const VecType &t = *s.type;
    size_t sz = s.model.size();
    bool reachable = t.limit <= 255;
    const VecProfile *prof = vec_profile(plan.profile);
    bool bigRun = plan.cmpMode == 2;
    size_t softRoom = (prof ? prof->room : 40) * (bigRun ? 10 : 1);
    unsigned overshootPct = prof ? prof->overshootPct : 30;
    size_t room = reachable ? (size_t)t.limit : softRoom;
    if (room < sz) room = sz;
    bool small = plan.cmpMode == 1 && t.N > 0;  // bias counts to stay within N
    bool wantOvershoot = reachable && t.limitThrows && ((op.b >> 20) % 100) < overshootPct;
    io.kind = op.kind; io.stream = op.src % SRC_NKINDS; io.variant = (op.a >> 24) & 0xff; io.fkind = op.fkind; io.fk = op.fk;
    expectThrow = 0; lenientThrow = false;
    if (!t.hasExtras && needs_extras(op.kind)) return false;
    auto limit_exc = [&]() { return t.flavour == FL_FIXED ? 1 : 2; };
    // largest value an argument of the vector's size_type can carry
    size_t argMax = t.flavour == FL_FIXED ? (t.limit <= 255 ? 255 : 65535) : (size_t)(t.limit > 1000000 ? 1000000 : t.limit);
    // position with bias to the ends
    auto pick_pos = [&](size_t n) -> size_t {
      unsigned sel = (op.b >> 16) & 7;
      if (sel == 0) return n;
      if (sel == 1) return 0;
      return n ? op.b % (n + 1) : 0;
    };
    // count of added elements, small most of the time
    auto pick_count = [&](size_t lo) -> size_t {
      size_t c = ((op.n >> 8) & 3) == 0 ? op.n % (bigRun ? 330 : 40) : op.n % 5;
      if (small && sz + c > t.N) c = sz < t.N ? (op.n % (t.N - sz + 1)) : 0;
      return c < lo ? lo : c;
    };
    // fit `add` new elements: clamp, or keep the overshoot (expect the limit exception)
    auto fit = [&](size_t &add, size_t lo) -> bool {
      if (sz + add <= room) return true;
      if (wantOvershoot && sz + add > t.limit) { expectThrow = limit_exc(); return true; }
      add = room - sz;
      return add >= lo;
    };
    auto gen_vals = [&](size_t n) { for (size_t i = 0; i < n; ++i) io.vals.push_back(fresh(op.a, (unsigned)i)); };
    // a count close to the maximum of a wide size_type (32/64 bit): size() + count exceeds the size_type -- and, for a size_type as wide
    // as uintmax_t, wraps around in the library's own needed-size computation.  Must be refused with std::overflow_error (C08).
    auto huge_count = [&](size_t &add) -> bool {
      if (reachable || t.flavour == FL_FIXED || !t.limitThrows || !sz) return false;
      if (((op.b >> 20) % 100) < 98 - (overshootPct + 3) / 4) return false;  // (selector values that simplified plans never use)
      size_t j = (op.n >> 26) % 4;
      if (j >= sz) j = sz - 1;
      add = (size_t)t.limit - j;
      if (stats) stats->probe(t.limit > 0xffffffffull ? "huge_count_wraps_uintmax" : "huge_count_exceeds_size_type");
      return true;
    };

    switch (op.kind) {
      case V_PUSH_COPY: case V_PUSH_MOVE: case V_EMPLACE_BACK: {
        size_t add = 1;
        if (small && sz >= t.N && ((op.n >> 4) & 7) != 0) return false;
        if (!fit(add, 1)) return false;
        gen_vals(1);
        return true;
      }
      case V_INSERT_COPY: case V_INSERT_MOVE: case V_EMPLACE: {
        size_t add = 1;
        if (small && sz >= t.N && ((op.n >> 4) & 7) != 0) return false;
        if (!fit(add, 1)) return false;
        io.pos = pick_pos(sz); gen_vals(1);
        return true;
      }
      case V_INSERT_N: {
        size_t add = pick_count(0);
        if (huge_count(add)) { expectThrow = 2; io.count = add; io.pos = pick_pos(sz); gen_vals(1); return true; }
        if (!fit(add, 0)) return false;
        if (add > argMax) add = argMax;  // argument is a size_type
        expectThrow = sz + add > t.limit ? limit_exc() : 0;
        io.count = add; io.pos = pick_pos(sz); gen_vals(1);
        return true;
      }
      case V_INSERT_RANGE: case V_APPEND_RANGE: {
        size_t add = pick_count(0);
        // a range longer than the size_type itself can count (its length wraps when narrowed): must still be refused
        if (wantOvershoot && argMax <= 255 && ((op.n >> 24) & 3) == 0 && io.stream != SRC_INPUT) add = 256 + (op.n >> 26) % 8;
        if (!fit(add, 0)) return false;
        io.pos = op.kind == V_INSERT_RANGE ? pick_pos(sz) : sz; gen_vals(add);
        return true;
      }
      case V_INSERT_IL: case V_APPEND_IL: {
        size_t add = op.n % 4;
        if (small && sz + add > t.N) add = 0;
        if (!fit(add, 0)) return false;
        io.pos = op.kind == V_INSERT_IL ? pick_pos(sz) : sz; gen_vals(add);
        return true;
      }
      case V_ERASE1:
        if (!sz) return false;
        io.pos = ((op.b >> 16) & 3) == 0 ? sz - 1 : op.b % sz;
        return true;
      case V_ERASE_RANGE: {
        io.pos = pick_pos(sz);
        size_t len = op.n % 4;
        if (((op.n >> 8) & 7) == 0) len = op.n % (sz + 1);
        io.pos2 = io.pos + len > sz ? sz : io.pos + len;
        return true;
      }
      case V_POP_BACK: case V_POP_BACK_VAL:
        return sz != 0;
      case V_RESIZE: case V_RESIZE_V: {
        size_t target;
        switch ((op.n >> 12) & 3) {
          case 0: target = op.n % (sz + 1); break;
          case 1: target = sz + op.n % 5; break;
          default: target = op.n % 14; break;
        }
        if (small && target > t.N && sz <= t.N) target = op.n % (t.N + 1);
        if (target > sz) {
          size_t add = target - sz;
          if (!fit(add, 0)) return false;
          target = sz + add;
        }
        if (target > (size_t)t.limit && t.flavour != FL_FIXED) { target = (size_t)t.limit; expectThrow = 0; }  // argument is a size_type
        if (t.flavour == FL_FIXED && target > 255) target = 255;
        if (target <= t.limit) expectThrow = 0;
        io.count = target;
        if (op.kind == V_RESIZE_V) gen_vals(1);
        return true;
      }
      case V_CLEAR: case V_SHRINK:
        return true;
      case V_RESERVE: {
        size_t n;
        VecObs o = t.observe(s.obj);
        switch ((op.n >> 12) & 3) {
          case 0: n = op.n % 24; break;
          case 1: n = o.capacity + 1 + op.n % 6; break;
          default: n = op.n % (o.capacity + 1); break;
        }
        if (small && ((op.n >> 20) & 3) != 0 && n > t.N) n = op.n % (t.N + 1);
        if (t.flavour == FL_FIXED) {
          if (n > 255) n = 255;
          if (n > t.limit) {
            if (!wantOvershoot) n = (size_t)t.limit;
            else { expectThrow = 1; lenientThrow = true; }
          }
        } else {
          size_t cap = reachable ? (size_t)t.limit : softRoom + 24;
          if (n > cap) n = cap;
        }
        io.count = n;
        return true;
      }
      case V_ASSIGN_N: case V_CTOR_N: case V_CTOR_NV: {
        size_t n = pick_count(0);
        if (small && n > t.N) n = op.n % (t.N + 1);
        if (n > room) {
          if (wantOvershoot && t.flavour == FL_FIXED && n <= 255) expectThrow = 1;  // argument is a size_type: only a fixed capacity can be exceeded
          else n = op.n % (room + 1);
        }
        io.count = n;
        if (op.kind != V_CTOR_N) gen_vals(1);
        return true;
      }
      case V_ASSIGN_RANGE: case V_CTOR_RANGE: {
        size_t n = pick_count(0);
        if (small && n > t.N) n = op.n % (t.N + 1);
        if (n > room) {
          if (wantOvershoot) { n = (size_t)t.limit + 1 + op.n % 3; expectThrow = limit_exc(); }
          else n = op.n % (room + 1);
        }
        gen_vals(n);
        return true;
      }
      case V_ASSIGN_IL: case V_CTOR_IL: {
        size_t n = op.n % 4;
        if (n > room) {
          if (wantOvershoot) expectThrow = limit_exc(); else n = room;
        }
        gen_vals(n);
        return true;
      }
      case V_APPEND_N: case V_APPEND_NV: {
        size_t add = pick_count(0);
        if (huge_count(add)) { expectThrow = 2; io.count = add; if (op.kind == V_APPEND_NV) gen_vals(1); return true; }
        if (!fit(add, 0)) return false;
        if (add > argMax) add = argMax;
        expectThrow = sz + add > t.limit ? limit_exc() : 0;
        io.count = add;
        if (op.kind == V_APPEND_NV) gen_vals(1);
        return true;
      }
      case V_CTOR_DEFAULT:
        return true;
      case V_COPY_ASSIGN: case V_CTOR_COPY:
        if (!w) return false;
        return true;  // same type: always fits
      case V_MOVE_ASSIGN: case V_SWAP: case V_CTOR_MOVE: case V_COMPARE:
        return w != nullptr;
      case V_SWAP2: {
        if (!w) return false;
        const VecType &u = *w->type;
        bool possible = sz <= u.limit && w->model.size() <= t.limit;
        if (!possible) {
          // exceeding a vector with the unchecked policy is undefined; a throwing partner that cannot take the other's elements must throw
          if ((w->model.size() > t.limit && !t.limitThrows) || (sz > u.limit && !u.limitThrows)) return false;
          expectThrow = 3;
        }
        return true;
      }
      case V_CTOR_FROM_VEC:
        return w != nullptr && fam.pairs[s.typeIdx][w->typeIdx].ctorFromVec != nullptr;
      case V_ACCESS:
        if (!sz) return false;
        io.pos = op.b % sz;
        return true;
      case V_AT_OOR: {
        size_t i = sz + op.n % 3;
        size_t maxArg = t.flavour == FL_FIXED ? 255 : (size_t)t.limit;
        if (t.flavour == FL_FIXED && t.limit > 255) maxArg = 65535;
        if (i > maxArg) return false;
        io.pos = i; expectThrow = 1;
        return true;
      }
      case V_ALIAS_PUSH: case V_ALIAS_EMPLACE_BACK: case V_ALIAS_EMPLACE_BACK_ARG:
      case V_ALIAS_INSERT: case V_ALIAS_EMPLACE: case V_ALIAS_EMPLACE_ARG: {
        if (!sz) return false;
        size_t add = 1;
        if (!fit(add, 1)) return false;
        io.srcIdx = op.a % sz; io.pos = pick_pos(sz); gen_vals(1);
        return true;
      }
      case V_ALIAS_INSERT_N: case V_ALIAS_APPEND: {
        if (!sz) return false;
        size_t add = op.n % 4;
        if (huge_count(add)) { expectThrow = 2; io.count = add; io.srcIdx = op.a % sz; io.pos = op.kind == V_ALIAS_INSERT_N ? pick_pos(sz) : sz; return true; }
        if (!fit(add, 0)) return false;
        if (add > argMax) add = argMax;
        expectThrow = sz + add > t.limit ? limit_exc() : 0;
        io.count = add; io.srcIdx = op.a % sz; io.pos = op.kind == V_ALIAS_INSERT_N ? pick_pos(sz) : sz;
        return true;
      }
      case V_ALIAS_RESIZE: case V_ALIAS_ASSIGN: {
        if (!sz) return false;
        size_t target;
        switch ((op.n >> 12) & 3) {
          case 0: target = op.n % (sz + 1); break;
          case 1: target = sz + op.n % 4; break;
          default: target = op.n % 10; break;
        }
        if (target > room) {
          if (wantOvershoot && t.flavour == FL_FIXED && target <= 255) expectThrow = 1; else target = room;
        }
        io.count = target; io.srcIdx = op.a % sz;
        return true;
      }
      case V_FILL_TO_N: {
        if (!t.N || sz >= t.N || t.flavour == FL_FIXED) {
          if (t.flavour != FL_FIXED || sz >= t.N) return false;
        }
        gen_vals(t.N - sz);
        return true;
      }
      case V_FILL_TO_CAP: {
        VecObs o = t.observe(s.obj);
        size_t c = o.capacity > room ? room : o.capacity;
        if (c <= sz) return false;
        gen_vals(c - sz);
        return true;
      }
      case V_FILL_TO_LIMIT_MINUS: {
        if (!reachable) {
          // a partner for the narrow size_types of the family: more elements than an 8-bit size_type can count
          bool narrow = false;
          for (const VecType *u : fam.types) narrow = narrow || (u->limit <= 255 && u->flavour != FL_FIXED);
          if (!narrow || t.limit < 300) return false;
          size_t target = 256 + op.n % 6;
          if (target <= sz) return false;
          gen_vals(target - sz);
          return true;
        }
        size_t k = op.n % 4;
        size_t target = t.limit > k ? (size_t)t.limit - k : 0;
        if (target <= sz) return false;
        gen_vals(target - sz);
        return true;
      }
      case V_GROW_PAST_N: {
        if (t.flavour != FL_SMALL) return false;
        size_t target = t.N + 1 + op.n % 3;
        if (target > room || target <= sz) return false;
        gen_vals(target - sz);
        return true;
      }
      case V_DRAIN:
        if (sz > 300) io.variant -= io.variant % 3;  // the erase(begin()) loop is quadratic: keep it to small vectors (the per-run watchdog must never fire on correct code)
        return sz != 0;
      case V_APPEND_LOOP: {
        if (t.flavour == FL_FIXED) return false;
        size_t big = prof ? prof->bigAppend : 40;
        size_t n = 1 + op.n % big;
        if (((op.n >> 16) & 3) == 0) n = 1 + op.n % (big < 8 ? big : 8);
        size_t r2 = reachable ? (size_t)t.limit : (prof ? prof->room : 40) * 3;
        if (sz + n > r2) n = r2 > sz ? r2 - sz : 0;
        if (payMod && n > 4000 && big < 100000) n = 4000;
        if (big >= 100000) {  // huge appends: keep the whole pool within what the simulated heap can hold
          size_t tot = total_model_size();
          if (tot + n > 3700000) n = tot < 3700000 ? 3700000 - tot : 0;
          if (t.elemSize > 4 && n > 5000) n = 5000;  // larger elements would not fit the arena: ordinary sizes for them
        }
        if (!n) return false;
        gen_vals(n);
        if (io.variant % 8 == 1) for (Val &v : io.vals) v = Val{0, 0};  // the resize(size()+1) method appends value-initialised elements
        return true;
      }
      case V_RELOCATE:
        return t.claimsTR && !plan.noReloc;
      case V_ERASE_VALUE:
#ifdef AMC_CXX20
        if (sz && (op.n & 1)) { io.vals.push_back(s.model[op.b % sz]); } else gen_vals(1);
        return true;
#else
        return false;
#endif
      case V_ERASE_IF:
#ifdef AMC_CXX20
        io.mod = 2 + op.n % 3;
        return true;
#else
        return false;
#endif
      default:
        return false;
    }
  }

  // ---------------------------------------------------------------------------------------------- model side
  void apply_model(const IOp &io, Slot &s, Slot *w, Result &exp) {
    std::vector<Val> &m = s.model;
    const std::vector<Val> &x = io.vals;
    switch (io.kind) {
      case V_PUSH_COPY: case V_PUSH_MOVE: case V_EMPLACE_BACK: m.push_back(x[0]); break;
      case V_INSERT_COPY: case V_INSERT_MOVE: case V_EMPLACE: { auto it = m.insert(m.begin() + io.pos, x[0]); exp.retIndex = it - m.begin(); } break;
      case V_INSERT_N: { auto it = m.insert(m.begin() + io.pos, io.count, x[0]); exp.retIndex = it - m.begin(); } break;
      case V_INSERT_RANGE: case V_INSERT_IL: { auto it = m.insert(m.begin() + io.pos, x.begin(), x.end()); exp.retIndex = it - m.begin(); } break;
      case V_APPEND_RANGE: case V_APPEND_IL: m.insert(m.end(), x.begin(), x.end()); break;
      case V_ERASE1: { auto it = m.erase(m.begin() + io.pos); exp.retIndex = it - m.begin(); } break;
      case V_ERASE_RANGE: { auto it = m.erase(m.begin() + io.pos, m.begin() + io.pos2); exp.retIndex = it - m.begin(); } break;
      case V_POP_BACK: m.pop_back(); break;
      case V_POP_BACK_VAL: exp.hasVal = true; exp.val = m.back(); m.pop_back(); break;
      case V_RESIZE: m.resize(io.count, Val{0, 0}); break;
      case V_RESIZE_V: m.resize(io.count, x[0]); break;
      case V_CLEAR: m.clear(); break;
      case V_RESERVE: case V_SHRINK: break;
      case V_ASSIGN_N: case V_CTOR_NV: m.assign(io.count, x[0]); break;
      case V_CTOR_N: m.assign(io.count, Val{0, 0}); break;
      case V_ASSIGN_RANGE: case V_ASSIGN_IL: case V_CTOR_RANGE: case V_CTOR_IL: m.assign(x.begin(), x.end()); break;
      case V_APPEND_N: m.insert(m.end(), io.count, Val{0, 0}); break;
      case V_APPEND_NV: m.insert(m.end(), io.count, x[0]); break;
      case V_CTOR_DEFAULT: m.clear(); break;
      case V_COPY_ASSIGN: case V_CTOR_COPY: m = w->model; break;
      case V_MOVE_ASSIGN: case V_CTOR_MOVE: case V_CTOR_FROM_VEC: m = w->model; w->model.clear(); break;  // source re-synchronised by the caller
      case V_SWAP: case V_SWAP2: m.swap(w->model); break;
      case V_COMPARE: {
        const std::vector<Val> &a = m, &b = w->model;
        unsigned bits = 0;
        if (a == b) bits |= 1;
        if (a != b) bits |= 2;
        if (a < b) bits |= 4;
        if (a <= b) bits |= 8;
        if (a > b) bits |= 16;
        if (a >= b) bits |= 32;
        exp.bits = bits;
      } break;
      case V_ACCESS: {
        size_t i = io.pos;
        Val r[] = {m.at(i), m.at(i), m[i], m[i], m.front(), m.back(), m.data()[i], *(m.begin() + i), *(m.end() - 1), *m.rbegin(), *(m.rend() - 1),
                   *(m.rbegin() + (m.size() - 1 - i))};
        exp.reads.assign(r, r + 12);
        exp.bits = 1 | (m.empty() ? 2u : 0u);
      } break;
      case V_ALIAS_PUSH: case V_ALIAS_EMPLACE_BACK: { Val c = m[io.srcIdx]; m.push_back(c); } break;
      case V_ALIAS_EMPLACE_BACK_ARG: { Val c{m[io.srcIdx].key, x[0].pay}; m.push_back(c); } break;
      case V_ALIAS_INSERT: case V_ALIAS_EMPLACE: { Val c = m[io.srcIdx]; auto it = m.insert(m.begin() + io.pos, c); exp.retIndex = it - m.begin(); } break;
      case V_ALIAS_EMPLACE_ARG: { Val c{m[io.srcIdx].key, x[0].pay}; auto it = m.insert(m.begin() + io.pos, c); exp.retIndex = it - m.begin(); } break;
      case V_ALIAS_INSERT_N: { Val c = m[io.srcIdx]; auto it = m.insert(m.begin() + io.pos, io.count, c); exp.retIndex = it - m.begin(); } break;
      case V_ALIAS_APPEND: { Val c = m[io.srcIdx]; m.insert(m.end(), io.count, c); } break;
      case V_ALIAS_RESIZE: { Val c = m[io.srcIdx]; m.resize(io.count, c); } break;
      case V_ALIAS_ASSIGN: { Val c = m[io.srcIdx]; m.assign(io.count, c); } break;
      case V_FILL_TO_N: case V_FILL_TO_CAP: case V_FILL_TO_LIMIT_MINUS: case V_GROW_PAST_N: case V_APPEND_LOOP:
        m.insert(m.end(), x.begin(), x.end());
        break;
      case V_DRAIN: m.clear(); break;
      case V_ERASE_VALUE: {
        size_t before = m.size();
        m.erase(std::remove(m.begin(), m.end(), x[0]), m.end());
        exp.retCount = (long)(before - m.size());
      } break;
      case V_ERASE_IF: {
        size_t before = m.size();
        int mod = io.mod;
        m.erase(std::remove_if(m.begin(), m.end(), [mod](const Val &v) { return v.key % mod == 0; }), m.end());
        exp.retCount = (long)(before - m.size());
      } break;
      default: break;
    }
  }

  // new size the operation would produce (for the "fits the current capacity" rule)
  static size_t added_elems(const IOp &io, size_t sz) {
    switch (io.kind) {
      case V_INSERT_N: case V_APPEND_N: case V_APPEND_NV: case V_ALIAS_INSERT_N: case V_ALIAS_APPEND: return io.count;
      case V_INSERT_RANGE: case V_INSERT_IL: case V_APPEND_RANGE: case V_APPEND_IL: return io.vals.size();
      case V_RESIZE: case V_RESIZE_V: case V_ALIAS_RESIZE: return io.count > sz ? io.count - sz : 0;
      default: return 1;
    }
  }

  void resync(Slot &s, const char *why) {
    std::vector<Val> got;
    std::string err;
    VecObs o = s.type->observe(s.obj);
    if (o.size > o.capacity) { viol(VK_FAULT, P(9), std::string(why) + ": size() > capacity()"); return; }
    if (!s.type->snapshot(s.obj, got, err)) { viol(VK_FAULT, P(9), std::string(why) + ": " + err); return; }
    // a std::pair element whose own assignment was interrupted between its two members is alive and legal (basic guarantee of
    // std::pair), but has no model value: empty the vector and go on
    bool torn = false;
    for (const Val &v : got) torn = torn || (v.key == -3 && v.pay == -3);
    if (torn && s.type->ledgerMode == 1) {
      IOp io; io.kind = V_CLEAR;
      Result r;
      s.type->apply(s.obj, nullptr, io, r);
      got.clear();
      if (stats) stats->probe("torn_pair_after_fault_cleared");
    }
    s.model = got;
  }

  // ---------------------------------------------------------------------------------------------- one step
  void step(int idx, const Op &op) {
    unsigned c = op.c % slots.size();
    Slot &s = slots[c];
    Slot *w = nullptr;
    if (slots.size() > 1) {
      unsigned d0 = op.d % slots.size();
      bool needSame = op.kind != V_SWAP2 && op.kind != V_CTOR_FROM_VEC;
      for (unsigned k = 0; k < slots.size(); ++k) {
        unsigned d = (d0 + k) % slots.size();
        if (d == c) continue;
        if (needSame && slots[d].typeIdx != s.typeIdx) continue;
        if (op.kind == V_CTOR_FROM_VEC && !fam.pairs[s.typeIdx][slots[d].typeIdx].ctorFromVec) continue;
        w = &slots[d];
        break;
      }
    }
    if (!is_binary(op.kind)) w = nullptr;
    // v = v, v = std::move(v), v.swap(v): legal for std::vector (the moved-from-itself vector is valid but unspecified, the others
    // change nothing).  With inline storage a self swap swaps every element with itself, as std::array::swap does; the element
    // ledger therefore only counts self-move-assignments during that one operation.
    bool selfOp = op.self && (op.kind == V_COPY_ASSIGN || op.kind == V_MOVE_ASSIGN || op.kind == V_SWAP);
    if (selfOp) w = &s;
    G.begin_op(idx, op.kind, op.id, vec_op_name(op.kind));
    IOp io;
    int expectThrow = 0;
    bool lenientThrow = false;
    int pay0 = paygen;
    bool live = interpret(op, s, w, io, expectThrow, lenientThrow);
    char line[512];
    if (!live) {
      paygen = pay0;
      snprintf(line, sizeof line, "#%d %s c%u noop", idx, vec_op_name(op.kind), c);
      G.tr(line);
      if (stats) ++stats->noops;
      return;
    }
    ++opsExecuted;
    const VecType &t = *s.type;
    if (is_macro(io.kind) || io.kind == V_RELOCATE) io.fkind = F_NONE;
    // ---- context properties
    if (is_alias(io.kind)) G.ctxProps |= P(10);
    if (io.kind == V_SWAP2) G.ctxProps |= P(13);
    G.baseProps = P(1);
    if (expectThrow) { G.ctxProps |= P(8); G.baseProps = P(8); }  // C01 speaks of operations within the capacity; the limit case is C08's
    if (relocExecuted) G.ctxProps |= P(14);
    // ---- pre-state
    VecObs pre = t.observe(s.obj);
    VecObs wpre;
    if (w) wpre = w->type->observe(w->obj);
    int cls = state_class(t, pre), wcls = w ? state_class(*w->type, wpre) : 0;
    {
      std::string so = std::string(vec_op_name(io.kind)) + "(" + state_class_name(cls);
      if (w) so += selfOp ? std::string(",self") : std::string(",") + state_class_name(wcls);
      if (is_alias(io.kind) || io.kind == V_INSERT_N || io.kind == V_INSERT_RANGE) {
        so += io.pos == pre.size ? ",end" : ",mid";
        if (is_alias(io.kind)) so += io.srcIdx >= io.pos ? ",src>=pos" : ",src<pos";
        so += pre.size + added_elems(io, pre.size) > pre.capacity ? ",grows" : ",fits";
      }
      if (io.kind == V_INSERT_RANGE || io.kind == V_APPEND_RANGE || io.kind == V_ASSIGN_RANGE || io.kind == V_CTOR_RANGE)
        so += std::string(",src=") + src_name(io.stream);
      if (io.fkind) so += io.fkind == F_ELEM ? ",elemfault" : ",allocfault";
      if (expectThrow) so += ",overlimit";
      so += ")";
      sigOps.push_back(so);
    }
    size_t sz0 = s.model.size();
    bool srcHeap = w && !wpre.inside && wpre.data != nullptr && wpre.capacity > 0;
    bool dstHeap = !pre.inside && pre.data != nullptr && pre.capacity > 0;
    bool flagS = s.mustInline, flagW = w ? w->mustInline : true;
    // ---- C07 element watch: elements before the insertion / erasure point must not be touched when no reallocation is needed
    bool watchPrefix = false, watchTransfer = false;
    if (t.elemHooks && !t.elemTR) {
      switch (io.kind) {
        case V_INSERT_COPY: case V_INSERT_MOVE: case V_EMPLACE: case V_INSERT_N: case V_INSERT_RANGE: case V_INSERT_IL:
        case V_ERASE1: case V_ERASE_RANGE:
          if (sz0 + (io.kind == V_ERASE1 || io.kind == V_ERASE_RANGE ? 0 : added_elems(io, sz0)) <= pre.capacity && io.pos > 0 && io.fkind == F_NONE) {
            watchPrefix = true;
            G.watchLo = (uintptr_t)pre.data; G.watchHi = G.watchLo + io.pos * t.elemSize;
          }
          break;
        default: break;
      }
    }
    if ((io.kind == V_MOVE_ASSIGN || io.kind == V_CTOR_MOVE || io.kind == V_CTOR_FROM_VEC) && srcHeap && !selfOp) {  // also an empty source that owns a buffer
      watchTransfer = true;
      G.watchLo = (uintptr_t)wpre.data; G.watchHi = G.watchLo + wpre.size * w->type->elemSize;
    }
    // swap2 between two heap-backed vectors of the same allocator and size_type exchanges the buffers as well
    bool swap2Exchange = io.kind == V_SWAP2 && srcHeap && dstHeap && t.flavour != FL_FIXED && w->type->flavour != FL_FIXED &&
                         t.allocDomain == w->type->allocDomain && t.sizeTypeId == w->type->sizeTypeId && !expectThrow;
    if ((io.kind == V_SWAP || swap2Exchange) && srcHeap && dstHeap && (pre.size || wpre.size) && !selfOp) {
      // both buffers are handed over; watch the larger one
      watchTransfer = true;
      const VecObs &big = pre.size >= wpre.size ? pre : wpre;
      G.watchLo = (uintptr_t)big.data; G.watchHi = G.watchLo + big.size * t.elemSize;
    }
    // ---- fault arming and allocator expectations
    G.faultKind = io.fkind; G.faultCountdown = io.fkind ? io.fk : -1;
    if (io.fkind && stats) ++stats->faultsAttached;
    g_reallocExpect.known = true; g_reallocExpect.n = w ? 2 : 1; g_reallocExpect.sizes[0] = pre.size; g_reallocExpect.sizes[1] = w ? wpre.size : 0;
    // operations that add elements one by one (macro loops, single-pass input ranges) reallocate at intermediate sizes
    if (is_ctor(io.kind)) g_reallocExpect.sizes[0] = 0;  // a new object is built in the slot
    g_reallocExpect.slack = (is_macro(io.kind) || io.stream == SRC_INPUT) ? io.vals.size() : 0;
    G.inVecOp = !(selfOp && io.kind == V_SWAP);
    // ---- execute
    Result res, exp;
    if (io.kind == V_RELOCATE) {
      void *fresh = raw_alloc(t);
      memcpy(fresh, s.obj, t.objSize);
      memset(s.obj, 0xA5, t.objSize);
      raw_free(s.obj);
      s.obj = fresh;
      res.outcome = OUT_RETURNED;
      relocExecuted = true;
      cell(14, s.typeIdx, cls);
      if (stats) stats->probe(pre.inside ? "relocate_inline_state" : "relocate_heap_state");
    } else if (io.kind == V_SWAP2) {
      g_pairVariant = (io.variant >> 1) & 1;
      fam.pairs[s.typeIdx][w->typeIdx].swap2(s.obj, w->obj, res);
    } else if (io.kind == V_CTOR_FROM_VEC) {
      fam.pairs[s.typeIdx][w->typeIdx].ctorFromVec(s.obj, w->obj, res);
    } else {
      t.apply(s.obj, w ? w->obj : nullptr, io, res);
    }
    G.armed = false; G.inVecOp = false; G.faultKind = F_NONE;
    g_reallocExpect.known = false;
    unsigned watchHits = G.opWatchHits;
    G.watchLo = G.watchHi = 0;
    bool fired = G.faultFired;
    if (fired) G.ctxProps |= P(9);
    if (stats) {
      ++stats->opKinds[vec_op_name(io.kind)];
      if (fired) ++stats->firedByOp[vec_op_name(io.kind)];
    }
    // ---- outcome classification
    bool threwLimit = res.outcome == OUT_THREW_LIMIT_OOR || res.outcome == OUT_THREW_LIMIT_OVF;
    bool threwFault = (res.outcome == OUT_THREW_FAULT || res.outcome == OUT_THREW_BADALLOC) && fired;
    bool modelApplied = false;
    if (res.outcome == OUT_NOOP) {
      snprintf(line, sizeof line, "#%d %s c%u unsupported", idx, vec_op_name(io.kind), c);
      G.tr(line);
      return;
    }
    if (!G.viol.set()) {
      if (threwFault) {
        // handled below
      } else if (expectThrow) {
        bool okType = (expectThrow == 3 && threwLimit) || (expectThrow == 1 && res.outcome == OUT_THREW_LIMIT_OOR) ||
                      (expectThrow == 2 && res.outcome == OUT_THREW_LIMIT_OVF);
        if (res.outcome == OUT_RETURNED && lenientThrow) {
          // a capacity check that may or may not throw (FixedCapacityVector::reserve beyond N); state must be unchanged either way
        } else if (!okType) {
          char m[200];
          snprintf(m, sizeof m, "operation exceeding the capacity limit %llu %s (expected %s)", (unsigned long long)t.limit,
                   res.outcome == OUT_RETURNED ? "returned normally" : (std::string("threw ") + outcome_name(res.outcome)).c_str(),
                   expectThrow == 1 ? "std::out_of_range" : expectThrow == 2 ? "std::overflow_error" : "out_of_range/overflow_error");
          G.violate(VK_LIMIT, P(8) | (io.kind == V_SWAP2 ? P(13) : 0), m);
        }
        if (stats) { ++stats->limitThrows; }
        if (is_ctor(io.kind) && res.outcome != OUT_RETURNED) s.model.clear();  // the slot holds a freshly default-constructed vector
      } else if (res.outcome != OUT_RETURNED) {
        char m[200];
        snprintf(m, sizeof m, "unexpected exception (%s%s%s) from an operation std::vector performs without throwing", outcome_name(res.outcome),
                 res.exWhat.empty() ? "" : ": ", res.exWhat.c_str());
        G.violate_ctx(threwLimit ? VK_LIMIT : VK_MODEL, (threwLimit ? P(8) : 0) | G.baseProps, m);
      }
    }
    // ---- model update
    if (!G.viol.set()) {
      if (res.outcome == OUT_RETURNED && !(expectThrow && lenientThrow) && !expectThrow) {
        if (!selfOp) apply_model(io, s, w, exp);  // self copy-assignment and self swap change nothing; a self move leaves a valid, unspecified vector (adopted below)
        modelApplied = true;
      } else if (res.outcome == OUT_RETURNED && expectThrow && lenientThrow) {
        modelApplied = false;  // state must be unchanged
      }
    }
    // ---- an element life-cycle violation inside this call: does the visible result differ from std::vector as well?
    // (decides whether the container-behaviour property is implicated in addition to C02)
    if (G.viol.set() && G.viol.kind == VK_ELEM && G.viol.opIndex == idx && res.outcome == OUT_RETURNED && !expectThrow && io.kind != V_RELOCATE) {
      if (!selfOp) apply_model(io, s, w, exp);
      if (!soft_equal(s) || (w && !soft_equal(*w))) G.viol.props |= G.baseProps;
    }
    // ---- after an injected fault: strong / basic guarantee (C09)
    if (!G.viol.set() && threwFault) {
      bool atEnd = io.pos == sz0;
      bool grows = io.count > sz0;
      bool strong = is_strong(io.kind, atEnd, grows, t);
      if (is_ctor(io.kind)) {
        // the object under construction does not exist; the slot now holds a default-constructed vector
        s.model.clear();
        if (w) {
          // copy construction: the source must be exactly as it was
          if (!check_slot(*w, "source after a failed construction")) { /* recorded */ }
        }
        if (!G.viol.set()) check_slot(s, "re-created vector after a failed construction");
      } else if (strong) {
        std::vector<Val> got;
        std::string err;
        VecObs o = t.observe(s.obj);
        if (o.size > o.capacity) G.violate(VK_FAULT, P(9), "after an injected fault: size() > capacity()");
        else if (!t.snapshot(s.obj, got, err)) G.violate(VK_FAULT, P(9), "after an injected fault in a strong-guarantee operation: " + err);
        else if (got != s.model) {
          char m[200];
          snprintf(m, sizeof m, "strong guarantee broken: %s threw the injected %s fault (k=%d) but the vector changed (size %zu -> %zu)",
                   vec_op_name(io.kind), G.faultFiredKind == F_ELEM ? "element" : "allocator", io.fk, s.model.size(), got.size());
          G.violate(VK_FAULT, P(9), m);
        }
        if (stats) stats->probe(o.capacity != pre.capacity ? "strong_fault_capacity_changed" : "strong_fault_capacity_same");
      } else {
        resync(s, "after an injected fault (basic guarantee)");
        if (w && !G.viol.set() && (io.kind == V_SWAP2)) resync(*w, "partner after an injected fault (basic guarantee)");
        else if (w && !G.viol.set()) check_slot(*w, "partner after an injected fault");
      }
      cell(9, s.typeIdx, io.kind, cls, G.faultFiredKind, (io.fk < 6 ? io.fk : 6) * 2 + (strong ? 1 : 0));
    }
    // ---- results
    if (!G.viol.set() && modelApplied) {
      if (res.retIndex != exp.retIndex && exp.retIndex >= 0) {
        char m[128];
        snprintf(m, sizeof m, "returned iterator designates index %ld, std::vector returns index %ld", res.retIndex, exp.retIndex);
        viol(VK_MODEL, G.baseProps, m);
      } else if (exp.hasVal && (!res.hasVal || res.val != exp.val)) {
        char m[128];
        snprintf(m, sizeof m, "returned value %d:%d, expected %d:%d", res.val.key, res.val.pay, exp.val.key, exp.val.pay);
        viol(VK_MODEL, G.baseProps, m);
      } else if (io.kind == V_COMPARE && res.bits != exp.bits) {
        char m[128];
        snprintf(m, sizeof m, "comparison operators give %#x, std::vector gives %#x (bits ==,!=,<,<=,>,>=)", res.bits, exp.bits);
        viol(VK_MODEL, G.baseProps, m);
      } else if (io.kind == V_ACCESS && (res.reads != exp.reads || res.bits != exp.bits)) {
        viol(VK_MODEL, G.baseProps, "element access (at/[]/front/back/data/iterators/empty) differs from std::vector");
      } else if (!res.refOk) {
        viol(VK_MODEL, G.baseProps, "emplace_back did not return a reference to the new last element");
      } else if ((io.kind == V_ERASE_VALUE || io.kind == V_ERASE_IF) && res.retCount != exp.retCount) {
        viol(VK_MODEL, G.baseProps, "erase/erase_if returned a different count than std::erase");
      } else if (res.streamReadAfterEof || res.streamReread) {
        viol(VK_MODEL, G.baseProps, res.streamReadAfterEof ? "single-pass input range was read past its end (it was traversed more than once)"
                                                             : "single-pass input range: an element was read twice");
      }
    }
    // moved-from sources: valid but unspecified -> adopt
    if (!G.viol.set() && modelApplied && (io.kind == V_MOVE_ASSIGN || io.kind == V_CTOR_MOVE || io.kind == V_CTOR_FROM_VEC)) {
      std::vector<Val> got;
      std::string err;
      if (!w->type->snapshot(w->obj, got, err)) viol(VK_ELEM, P(2) | G.baseProps, "moved-from vector: " + err);
      else { w->model = got; if (stats && !got.empty()) stats->probe("moved_from_not_empty"); }
    }
    VecObs post = t.observe(s.obj);
    // ---- C18
    if (!G.viol.set() && res.outcome == OUT_RETURNED) {
      if (io.kind == V_APPEND_LOOP && res.appended) {
        double n = (double)res.appended;
        unsigned bound = 2u * (unsigned)std::ceil(std::log2(n)) + 4u;
        uint64_t rbound = 8ull * (res.appended + sz0) + 64ull;  // O(n) amortised: a vector that already holds sz0 elements moves them too
        if (res.growBadFrom) {
          char m[200];
          snprintf(m, sizeof m, "while appending %zu elements one by one the capacity grew from %zu to %zu: less than the constant factor 1.5", res.appended,
                   res.growBadFrom, res.growBadTo);
          G.violate(VK_GROWTH, P(18), m);
        } else if (res.growEvents > bound) {
          char m[200];
          snprintf(m, sizeof m, "appending %zu elements one by one (start size %zu, capacity %zu) caused %u reallocations, bound 2*ceil(log2 n)+4 = %u",
                   res.appended, sz0, pre.capacity, res.growEvents, bound);
          G.violate(VK_GROWTH, P(18), m);
        } else if (res.relocs > rbound || (t.elemHooks && !t.elemTR && res.bits > rbound + res.appended)) {
          char m[200];
          snprintf(m, sizeof m, "appending %zu elements relocated %llu elements (move constructions %u), linear bound %llu", res.appended,
                   (unsigned long long)res.relocs, res.bits, (unsigned long long)rbound);
          G.violate(VK_GROWTH, P(18), m);
        }
        unsigned nb = res.appended < 8 ? 0 : res.appended < 64 ? 1 : res.appended < 512 ? 2 : res.appended < 2048 ? 3 : 4;
        cell(18, s.typeIdx, cls, nb, res.growEvents < 63 ? res.growEvents : 63);
        if (stats) stats->probe("append_loop_elems", res.appended);
      } else if (io.kind == V_RESERVE && t.flavour != FL_FIXED) {
        if (G.opAllocCalls + G.opReallocCalls > 1) G.violate(VK_GROWTH, P(18), "reserve(n) needed more than one allocator request");
        cell(18, s.typeIdx, cls, 5, io.count > pre.capacity);
      } else if (io.kind == V_SHRINK && t.flavour != FL_FIXED) {
        size_t want = (t.flavour == FL_SMALL && post.size <= t.N) ? t.N : post.size;
        if (post.capacity != want) {
          char m[160];
          snprintf(m, sizeof m, "after shrink_to_fit() capacity() is %zu, expected %zu (size %zu, N=%u)", post.capacity, want, post.size, t.N);
          G.violate(VK_GROWTH, P(18) | P(7), m);
        } else if (t.flavour == FL_SMALL && post.size <= t.N && t.N && !post.inside) {
          G.violate(VK_GROWTH, P(18) | P(5), "after shrink_to_fit() with size <= N the elements are not back in the inline storage");
        }
        cell(18, s.typeIdx, cls, 6, 0);
      }
    }
    // ---- C18: whenever an operation other than reserve has to grow the buffer, the capacity grows by the constant factor (1.5),
    // unless limited by the size_type
    if (!G.viol.set() && res.outcome == OUT_RETURNED && t.flavour != FL_FIXED && !may_shrink(io.kind) && io.kind != V_RESERVE &&
        post.capacity > pre.capacity && pre.capacity > 0) {
      uint64_t want = (3ull * pre.capacity) / 2;
      if (want > t.limit) want = t.limit;
      if (post.capacity < want) {
        char m[200];
        snprintf(m, sizeof m, "%s had to grow the buffer and the capacity went from %zu to %zu: less than the constant factor 1.5 (size %zu -> %zu)",
                 vec_op_name(io.kind), pre.capacity, post.capacity, pre.size, post.size);
        G.violate(VK_GROWTH, P(18), m);
      }
      if (stats) stats->probe("growth_factor_checked");
    }
    // ---- C05 flag maintenance (the statement's own rule)
    if (!G.viol.set()) {
      bool threw = res.outcome != OUT_RETURNED;
      if (!threw) {
        switch (io.kind) {
          case V_RESERVE: if (io.count > t.N) s.mustInline = false; break;
          case V_SHRINK: if (t.flavour == FL_SMALL && s.model.size() <= t.N) s.mustInline = true; break;
          case V_MOVE_ASSIGN: if (selfOp) break; s.mustInline = flagS && flagW; if (w->type->flavour == FL_SMALL) w->mustInline = true; break;
          case V_CTOR_MOVE: s.mustInline = flagW && t.flavour == FL_SMALL; if (w->type->flavour == FL_SMALL) w->mustInline = true; break;
          case V_CTOR_FROM_VEC: s.mustInline = false; break;
          case V_SWAP: s.mustInline = w->mustInline = flagS && flagW; break;
          case V_SWAP2:
            if (w->type->flavour != FL_FIXED) s.mustInline = flagS && flagW && w->type->flavour == FL_SMALL;
            if (t.flavour != FL_FIXED) w->mustInline = flagS && flagW && t.flavour == FL_SMALL;
            break;
          case V_CTOR_DEFAULT: case V_CTOR_COPY: case V_CTOR_N: case V_CTOR_NV: case V_CTOR_RANGE: case V_CTOR_IL:
            s.mustInline = t.flavour == FL_SMALL;
            break;
          default: break;
        }
      } else if (is_ctor(io.kind)) {
        s.mustInline = t.flavour == FL_SMALL;
      }
      if (t.flavour != FL_SMALL) s.mustInline = false;
      // a failed growth attempt beyond N may legitimately have moved to the heap already (capacity is not rolled back)
      if (threw && io.kind != V_AT_OOR) s.mustInline = false;  // incl. a single-pass range that grew the vector element by element before it hit the limit
      if (threw && io.kind == V_SWAP2) { s.mustInline = false; w->mustInline = false; }
      if (s.model.size() > t.N) s.mustInline = false;
      if (w && w->model.size() > w->type->N) w->mustInline = false;
      if (w && w->type->flavour != FL_SMALL) w->mustInline = false;
      // zero allocator requests while every participant is under the promise
      unsigned globalNew = threw ? 0 : G.opGlobalNew;  // building an exception object may allocate; that is not the container
      bool promiseAll = flagS && s.mustInline && (!w || (flagW && w->mustInline) || w->type->flavour == FL_FIXED);
      if (promiseAll && t.flavour == FL_SMALL && (G.opAllocCalls || G.opReallocCalls || G.opDeallocCalls || globalNew)) {
        char m[200];
        snprintf(m, sizeof m, "SmallVector made %u allocator request(s) (%s) although its size never exceeded N=%u", G.opAllocCalls + G.opReallocCalls + G.opDeallocCalls + globalNew,
                 G.allocLog.c_str(), t.N);
        G.violate(VK_INLINE, P(5), m);
      }
      if (t.flavour == FL_FIXED && (!w || w->type->flavour == FL_FIXED) && (G.opAllocCalls || G.opReallocCalls || globalNew)) {
        G.violate(VK_INLINE, P(5), "FixedCapacityVector requested dynamic memory");
      }
      if (t.flavour == FL_FIXED && io.kind != V_RELOCATE && !is_ctor(io.kind) && post.data != pre.data)
        G.violate(VK_INLINE, P(5), "begin() of a FixedCapacityVector changed");
      if (s.mustInline) cell(5, s.typeIdx, io.kind, cls);
    }
    // ---- contents vs model (target and partner), promise, capacity contract
    if (!G.viol.set()) check_slot(s, vec_op_name(io.kind));
    if (!G.viol.set() && w) check_slot(*w, "partner");
    if (!G.viol.set() && expectThrow && !modelApplied && !threwFault) {
      // C08: capacity exactly as before
      if (post.capacity != pre.capacity && !is_ctor(io.kind)) {
        char m[160];
        snprintf(m, sizeof m, "capacity changed from %zu to %zu by an operation that failed with a capacity-limit error", pre.capacity, post.capacity);
        G.violate(VK_LIMIT, P(8), m);
      }
      int dist = (int)(t.limit - sz0 < 3 ? t.limit - sz0 : 3);
      cell(8, s.typeIdx, io.kind, dist, (io.count < 3 ? io.count : 3) * 4 + (io.pos == 0 ? 0 : io.pos == sz0 ? 2 : 1), res.outcome);
    }
    if (!G.viol.set()) {
      for (Slot &sl : slots) check_inline(sl);
    }
    if (!G.viol.set()) {
      // C07
      VecObs wpost;
      if (w) wpost = w->type->observe(w->obj);
      bool threw = res.outcome != OUT_RETURNED;
      if (!may_shrink(io.kind) && post.capacity < pre.capacity) {
        char m[160];
        snprintf(m, sizeof m, "capacity decreased from %zu to %zu in %s", pre.capacity, post.capacity, vec_op_name(io.kind));
        G.violate(VK_CAPACITY, P(7), m);
      } else if (w && !may_shrink(io.kind) && wpost.capacity < wpre.capacity) {
        G.violate(VK_CAPACITY, P(7), "capacity of the source operand decreased");
      } else if (io.kind == V_RESERVE && !threw && post.capacity < io.count) {
        char m[160];
        snprintf(m, sizeof m, "after reserve(%zu) capacity() is %zu", io.count, post.capacity);
        G.violate(VK_CAPACITY, P(7) | P(18), m);
      } else if (!threw && !may_shrink(io.kind) && !(io.kind == V_RESERVE && io.count > pre.capacity) && s.model.size() <= pre.capacity &&
                 !is_macro(io.kind)) {
        if (post.data != pre.data && !(pre.capacity == 0)) {
          G.violate(VK_CAPACITY, P(7), std::string("data() changed in ") + vec_op_name(io.kind) + " although the resulting size fits the capacity");
        } else if ((G.opAllocCalls || G.opReallocCalls || G.opDeallocCalls) && pre.capacity != 0) {
          G.violate(VK_CAPACITY, P(7), std::string("allocator called (") + G.allocLog + ") in " + vec_op_name(io.kind) +
                                           " although the resulting size fits the capacity");
        } else if (watchPrefix && watchHits) {
          char m[200];
          snprintf(m, sizeof m, "%u element operation(s) touched elements before the point of %s (position %zu)", watchHits,
                   (io.kind == V_ERASE1 || io.kind == V_ERASE_RANGE) ? "erasure" : "insertion", io.pos);
          G.violate(VK_CAPACITY, P(7), m);
        }
      }
      if (!G.viol.set() && !threw && watchTransfer) {
        const void *expectData = (io.kind == V_SWAP || io.kind == V_SWAP2) ? (const void *)nullptr : wpre.data;
        if (io.kind == V_SWAP || io.kind == V_SWAP2) {
          if (post.data != wpre.data || wpost.data != pre.data)
            G.violate(VK_CAPACITY, P(7), "swap of two heap-backed vectors did not hand over the buffers (element addresses changed)");
          else if (G.opAllocCalls || G.opReallocCalls || G.opDeallocCalls)
            G.violate(VK_CAPACITY, P(7), "swap of two heap-backed vectors called the allocator (" + G.allocLog + ") instead of only handing over the buffers");
        } else if (post.data != expectData) {
          G.violate(VK_CAPACITY, P(7), std::string(vec_op_name(io.kind)) + " from a heap-backed vector did not hand over its buffer (element addresses changed)");
        }
        if (!G.viol.set() && watchHits) {
          char m[160];
          snprintf(m, sizeof m, "%u element operation(s) performed on the elements of a buffer that should only change owner", watchHits);
          G.violate(VK_CAPACITY, P(7), m);
        }
        if (stats) stats->probe("buffer_handover_checked");
      }
      if (!G.viol.set() && !threw && io.kind == V_SWAP2 && srcHeap && dstHeap && w->type->allocDomain == t.allocDomain && stats)
        stats->probe("swap2_heap_x_heap_same_alloc");
    }
    // ---- conservation (C02), canaries
    if (!G.viol.set() && fam.types[0]->elemHooks) {
      long want = (long)total_model_size();
      if (g_elems.liveArmed != want || g_elems.liveHarness != 0) {
        char m[200];
        snprintf(m, sizeof m, "live element objects created by the containers: %ld, elements owned by the containers: %ld (%s); harness temporaries alive: %ld",
                 g_elems.liveArmed, want, g_elems.liveArmed > want ? "leak" : "lost element / destroyed twice", g_elems.liveHarness);
        viol(VK_ELEM, P(2), m);
      }
    }
    if (!G.viol.set()) g_heap.check_canaries();
    // ---- coverage cells
    if (stats && !G.viol.set()) {
      cell(1, s.typeIdx, io.kind, cls, w ? wcls + 1 : 0, res.outcome);
      if (is_alias(io.kind)) {
        size_t growsBit = sz0 + added_elems(io, sz0) > pre.capacity;
        cell(10, s.typeIdx, io.kind, (sz0 < 7 ? sz0 : 7) * 8 + (io.pos < 7 ? io.pos : 7), (io.srcIdx < 7 ? io.srcIdx : 7) * 4 + (io.count < 3 ? io.count : 3),
             growsBit);
        stats->probe(io.srcIdx >= io.pos && !growsBit ? "alias_src_at_or_after_pos_spare_capacity" : "alias_other");
      }
      if (io.kind == V_SWAP2) cell(13, s.typeIdx * 8 + w->typeIdx, cls, wcls, res.outcome);
      if (relocExecuted && io.kind != V_RELOCATE) cell(14, s.typeIdx, 20 + cls, io.kind);
      if (pre.inside && !post.inside && t.flavour == FL_SMALL) stats->probe("spill_to_heap");
      if (!pre.inside && post.inside && t.flavour == FL_SMALL && pre.data) stats->probe("back_to_inline");
      if (cls == 5) stats->probe("inline_full_reached");
      if (cls == 7) stats->probe("heap_leN_reached");
      if (expectThrow) stats->probe("limit_hit");
      if (G.opNullDealloc) stats->probe("deallocate_nullptr");
      if (g_elems.selfMoveOutsideVec) stats->probe("self_move_outside_vector_ops");
    }
    // ---- transcript
    snprintf(line, sizeof line, "#%d %s c%u%s%s pos=%zu,%zu n=%zu src=%zu st=%s f=%d:%d -> %s%s sz=%zu cap=%zu in=%d ret=%ld [%s] %s ev=%u,%u,%u,%u,%u,%u,%u",
             idx, vec_op_name(io.kind), c, w ? " d" : "", w ? std::to_string((unsigned)(w - &slots[0])).c_str() : "", io.pos, io.pos2, io.count, io.srcIdx,
             src_name(io.stream), io.fkind, io.fk, outcome_name(res.outcome), fired ? "!" : "", post.size, post.capacity, (int)post.inside, res.retIndex,
             contents_str(s).c_str(), G.allocLog.c_str(), G.opElemEv[0], G.opElemEv[1], G.opElemEv[2], G.opElemEv[3], G.opElemEv[4], G.opElemEv[5],
             G.opElemEv[6]);
    G.tr(line);
  }
};

}  // namespace

RunOut run_vec_plan(const Plan &plan, const VecFamily &fam, Stats *stats, bool keepTranscript) {
  Runner r(plan, fam, stats);
  return r.run(keepTranscript);
}

std::string vec_plan_signature(const Plan &plan, const VecFamily &fam, const Violation &v) {
  Runner r(plan, fam, nullptr);
  r.run(false);
  std::string s = "elem=" + fam.elem + " ops=[";
  for (size_t i = 0; i < r.sigOps.size(); ++i) s += (i ? ";" : "") + r.sigOps[i];
  s += "] kind=" + std::string(vkind_name(v.kind));
  return s;
}

}  // namespace sim

// ------------------------------------------------------------------------------------------------ Engine facade
#include "engine.hpp"
namespace sim {
namespace {
struct VecEngine : Engine {
  const char *name() const override { return "vec"; }
  std::vector<std::string> families() const override {
    std::vector<std::string> r;
    for (VecFamily *f : vec_families()) r.push_back(f->name);
    std::sort(r.begin(), r.end());
    return r;
  }
  bool has_family(const std::string &f) const override { return find_vec_family(f) != nullptr; }
  std::vector<std::string> profiles() const override { return vec_profile_names(); }
  bool gen(const std::string &family, const std::string &profile, uint64_t runSeed, Plan &out) const override {
    const VecFamily *f = find_vec_family(family);
    const VecProfile *p = vec_profile(profile);
    if (!f || !p) return false;
    out = gen_vec_plan(*f, *p, runSeed);
    return true;
  }
  bool gen_scenario(const std::string &family, uint64_t runSeed, Plan &out) const override {
    const VecFamily *f = find_vec_family(family);
    if (!f) return false;
    out = gen_vec_scenario(*f, runSeed);
    return true;
  }
  RunOut run(const Plan &p, Stats *stats, bool keep) const override {
    const VecFamily *f = find_vec_family(p.config);
    if (!f) { RunOut o; o.viol.kind = VK_INTERNAL; o.viol.what = "unknown family " + p.config; return o; }
    return run_vec_plan(p, *f, stats, keep);
  }
  std::string signature(const Plan &p, const Violation &v) const override {
    const VecFamily *f = find_vec_family(p.config);
    return f ? vec_plan_signature(p, *f, v) : std::string("?");
  }
  const char *op_name(int k) const override { return vec_op_name(k); }
  int op_kind(const std::string &n) const override { return vec_op_kind(n); }
  std::string describe_family(const std::string &family) const override {
    const VecFamily *f = find_vec_family(family);
    if (!f) return "{}";
    std::string s = "{\"family\":\"" + f->name + "\",\"elem\":\"" + f->elem + "\",\"types\":[";
    for (size_t i = 0; i < f->types.size(); ++i) s += std::string(i ? "," : "") + "\"" + f->types[i]->name + "\"";
    return s + "]}";
  }
};
}  // namespace
Engine *vec_engine() {
  static VecEngine e;
  return &e;
}
}  // namespace sim
