// Set engine: plan generation, execution with all oracles armed (std::set reference model, iterator contract,
// comparator-object and comparator-budget monitors, inline promise, ledgers), statistics.
#include <algorithm>
#include <cmath>
#include <cstdlib>
#include <cstring>
#include <set>

#include "elems.hpp"
#include "engine.hpp"
#include "set.hpp"
#include "simalloc.hpp"
#include "simcmp.hpp"
#include "simheap.hpp"
#include "streams.hpp"

namespace sim {

static const char *kSetOpNames[] = {
#define X(n) #n,
    SIM_SET_OPS(X)
#undef X
};
const char *set_op_name(int k) { return (k >= 0 && k < S_NKINDS) ? kSetOpNames[k] : "?"; }
int set_op_kind(const std::string &name) {
  for (int k = 0; k < S_NKINDS; ++k)
    if (name == kSetOpNames[k]) return k;
  return -1;
}
static std::vector<SetFamily *> &sfamilies_mut() {
  static std::vector<SetFamily *> f;
  return f;
}
void register_set_family(SetFamily *f) { sfamilies_mut().push_back(f); }
const std::vector<SetFamily *> &set_families() { return sfamilies_mut(); }
const SetFamily *find_set_family(const std::string &name) {
  for (SetFamily *f : sfamilies_mut())
    if (f->name == name) return f;
  return nullptr;
}

// ------------------------------------------------------------------------------------------------ profiles
struct SetProfile {
  std::string name;
  unsigned w[S_NKINDS];
  unsigned meanLen = 25, maxLen = 160, minLen = 1;
  unsigned faultPermille = 0;
  unsigned keyDomMin = 4, keyDomMax = 64;
  unsigned bulkMax = 40;       // max element count of BULK / FROM_VECTOR
  unsigned smallBias = 0;      // percent of runs that stay within N (C05)
  bool swarm = true;
};
static void sset_all(SetProfile &p, unsigned w) { for (int k = 0; k < S_NKINDS; ++k) p.w[k] = w; }
static std::vector<SetProfile> build_set_profiles() {
  std::vector<SetProfile> ps;
  {
    SetProfile p; p.name = "sethist"; sset_all(p, 10);
    p.w[S_INSERT_COPY] = p.w[S_INSERT_MOVE] = p.w[S_EMPLACE] = 25; p.w[S_INSERT_HINT] = p.w[S_EMPLACE_HINT] = 20;
    p.w[S_INSERT_RANGE] = 20; p.w[S_BULK] = 8; p.w[S_ERASE_KEY] = 15; p.w[S_ERASE_POS] = 15; p.w[S_MERGE] = 15; p.w[S_MERGE2] = 12;
    p.w[S_EXTRACT_INSERT] = 18; p.w[S_GROW_PAST_N] = 8; p.w[S_DRAIN] = 4; p.w[S_CLEAR] = 4; p.w[S_RELOCATE] = 0; p.w[S_ERASE_LOOP] = 8;
    ps.push_back(p);
  }
  {  // small scopes across the inline/large boundary: C04 C11
    SetProfile p = ps[0]; p.name = "setsmall"; p.keyDomMin = 3; p.keyDomMax = 9; p.meanLen = 20; p.bulkMax = 12;
    p.w[S_GROW_PAST_N] = 20; p.w[S_DRAIN] = 12; p.w[S_ERASE_POS] = 30; p.w[S_ERASE_LOOP] = 20; p.w[S_ERASE_RANGE] = 15; p.w[S_COMPARE] = 20;
    p.w[S_MERGE] = 25; p.w[S_MERGE2] = 25; p.w[S_ERASE_KEY] = 25; p.w[S_BULK] = 3; p.w[S_FIND] = 15;
    ps.push_back(p);
  }
  {  // inline promise of SmallSet: C05
    SetProfile p = ps[1]; p.name = "setinline"; p.smallBias = 90; p.meanLen = 16;
    p.w[S_GROW_PAST_N] = 2; p.w[S_BULK] = 0; p.w[S_COPY_ASSIGN] = 25; p.w[S_MOVE_ASSIGN] = 25; p.w[S_SWAP] = 25; p.w[S_CTOR_COPY] = 15; p.w[S_CTOR_MOVE] = 15;
    ps.push_back(p);
  }
  {  // comparator budgets on large sets: C19
    SetProfile p; p.name = "setcmp"; sset_all(p, 2);
    p.keyDomMin = 600; p.keyDomMax = 2400; p.bulkMax = 1024; p.meanLen = 14; p.maxLen = 60;
    p.w[S_BULK] = 40; p.w[S_FROM_VECTOR] = 10; p.w[S_FIND] = 40; p.w[S_BOUNDS] = 40; p.w[S_FIND_HETERO] = 20; p.w[S_INSERT_HINT] = 50; p.w[S_EMPLACE_HINT] = 30;
    p.w[S_INSERT_COPY] = 25; p.w[S_EMPLACE] = 20; p.w[S_ERASE_KEY] = 25; p.w[S_MERGE] = 6; p.w[S_ERASE_RANGE] = 8; p.w[S_ERASE_LOOP] = 0; p.w[S_DRAIN] = 0;
    p.w[S_RELOCATE] = 0; p.w[S_GROW_PAST_N] = 6; p.w[S_INSERT_RANGE] = 10; p.w[S_EXTRACT_INSERT] = 25;
    ps.push_back(p);
  }
  {
    SetProfile p = ps.back(); p.name = "setcmp_big"; p.keyDomMin = 3000; p.keyDomMax = 9000; p.bulkMax = 4096;
    ps.push_back(p);
  }
  {  // faults inside set histories: C09
    SetProfile p = ps[0]; p.name = "setfault"; p.faultPermille = 160; p.w[S_GROW_PAST_N] = 15; p.w[S_INSERT_RANGE] = 25; p.w[S_MERGE] = 20;
    p.w[S_COPY_ASSIGN] = 15; p.w[S_CTOR_COPY] = 12; p.w[S_CTOR_RANGE] = 12; p.w[S_FROM_VECTOR] = 10;
    ps.push_back(p);
  }
  {  // relocate by memcpy: C14
    SetProfile p = ps[0]; p.name = "setreloc"; p.w[S_RELOCATE] = 60; p.meanLen = 20;
    ps.push_back(p);
  }
  size_t base = ps.size();
  for (size_t i = 0; i < base; ++i) {
    const std::string &n = ps[i].name;
    if (n == "sethist" || n == "setsmall" || n == "setfault" || n == "setreloc" || n == "setinline") {
      SetProfile p = ps[i];
      p.name = n + "_long"; p.meanLen = ps[i].meanLen * 4; p.maxLen = 400; p.bulkMax = ps[i].bulkMax * 2;
      ps.push_back(p);
    }
  }
  return ps;
}
static const std::vector<SetProfile> &set_profiles() {
  static std::vector<SetProfile> ps = build_set_profiles();
  return ps;
}
static const SetProfile *set_profile(const std::string &n) {
  for (const SetProfile &p : set_profiles())
    if (p.name == n) return &p;
  return nullptr;
}

static bool s_is_binary(int k) {
  return k == S_MERGE || k == S_MERGE2 || k == S_SWAP || k == S_COPY_ASSIGN || k == S_MOVE_ASSIGN || k == S_CTOR_COPY || k == S_CTOR_MOVE || k == S_COMPARE;
}
static bool s_is_ctor(int k) { return k == S_CTOR_DEFAULT || k == S_CTOR_COPY || k == S_CTOR_MOVE || k == S_CTOR_RANGE || k == S_CTOR_IL || k == S_FROM_VECTOR; }
static bool s_is_macro(int k) { return k == S_GROW_PAST_N || k == S_DRAIN || k == S_ERASE_LOOP; }
static bool s_iter_op(int k) { return k == S_ERASE_POS || k == S_ERASE_RANGE || k == S_ERASE_LOOP || k == S_INSERT_HINT || k == S_EMPLACE_HINT || k == S_EXTRACT_POS || k == S_WALK || k == S_FIND || k == S_DRAIN; }

static Plan gen_set_plan(const SetFamily &fam, const SetProfile &prof, uint64_t runSeed) {
  Rng r(runSeed);
  Plan p;
  p.engine = "set"; p.config = fam.name; p.profile = prof.name; p.seed = runSeed; p.env = r.next();
  unsigned K = (unsigned)fam.types.size();
  unsigned pool = 2 + r.below(3);
  unsigned t0 = r.below(K);
  for (unsigned i = 0; i < pool; ++i) p.types.push_back(r.chance(55, 100) ? t0 : r.below(K));
  if (p.types[0] != p.types[1] && r.chance(70, 100)) p.types[1] = p.types[0];
  p.keyDom = prof.keyDomMin + r.below(prof.keyDomMax - prof.keyDomMin + 1);
  p.cmpMode = 1 + r.below(3);
  if (prof.smallBias && r.below(100) < prof.smallBias) p.cmpMode |= 16;  // bit 4: keep sizes within N
  // bit 5: a "big" run (about one history run in twelve): ten times the key domain, larger ranges and bulk insertions -- sets of a few
  // hundred elements, so that code paths that only exist from a size on are reached in the quick tier as well
  if (prof.swarm && !(p.cmpMode & 16) && prof.keyDomMax <= 64 && r.chance(1, 12)) { p.cmpMode |= 32; p.keyDom *= 10; }
  unsigned w[S_NKINDS];
  unsigned long total = 0;
  for (int k = 0; k < S_NKINDS; ++k) {
    w[k] = prof.w[k];
    if (prof.swarm && w[k] && r.chance(1, 4)) w[k] = 0;
    else if (prof.swarm && w[k] && r.chance(1, 6)) w[k] *= 4;
    total += w[k];
  }
  if (!total) for (int k = 0; k < S_NKINDS; ++k) { w[k] = prof.w[k]; total += w[k]; }
  unsigned len = prof.minLen;
  while (len < prof.maxLen && r.below(prof.meanLen) != 0) ++len;
  for (unsigned i = 0; i < len; ++i) {
    unsigned long x = r.next() % total;
    int kind = 0;
    for (; kind < S_NKINDS; ++kind) { if (x < w[kind]) break; x -= w[kind]; }
    Op o;
    o.id = (int)i; o.kind = kind; o.c = r.below(1000); o.d = r.below(1000);
    o.a = (unsigned)r.next(); o.b = (unsigned)r.next(); o.n = (unsigned)r.next(); o.src = (int)r.below(SRC_NKINDS);
    o.self = r.below(20) == 3 ? 1 : 0;  // only meaningful for copy / move assignment and swap
    if (prof.faultPermille && r.below(1000) < prof.faultPermille && !s_is_macro(kind) && kind != S_RELOCATE) {
      o.fkind = r.chance(1, 2) ? F_ELEM : F_ALLOC;
      o.fk = (int)(r.below(3) ? r.below(3) : r.below(10));
    }
    p.ops.push_back(o);
  }
  return p;
}

// ------------------------------------------------------------------------------------------------ execution
namespace {

typedef std::set<Val, ModelCmp> Model;

struct SSlot {
  const SetType *type = nullptr;
  unsigned typeIdx = 0;
  void *obj = nullptr;
  int mode = 1;
  Model model;
  bool neverLarge = true;  // C05: has never held more than N elements nor received contents from a set that had
  std::vector<Val> fwd;    // last verified forward walk
  SSlot() : model(ModelCmp{1}) {}
};

struct SRunner {
  const Plan &plan;
  const SetFamily &fam;
  Stats *stats;
  std::vector<SSlot> slots;
  int paygen = 0;
  bool relocExecuted = false;
  unsigned opsExecuted = 0;
  std::vector<std::string> sigOps;
  const SetProfile *prof;

  SRunner(const Plan &p, const SetFamily &f, Stats *s) : plan(p), fam(f), stats(s), prof(set_profile(p.profile)) {}

  static void *raw_alloc(const SetType &t) {
    size_t al = t.objAlign < 64 ? 64 : t.objAlign;
    size_t sz = (t.objSize + al - 1) / al * al;
    void *p = nullptr;
    if (posix_memalign(&p, al, sz) != 0) abort();
    memset(p, 0xEE, sz);
    return p;
  }
  PropMask base_of(const SSlot &s) const { return s.type->flavour == SF_FLAT ? P(3) : P(4); }
  Val fresh(unsigned a, unsigned i) { ++paygen; return Val{int((a + i * 7u) % plan.keyDom), paygen}; }
  size_t total_model() const { size_t n = 0; for (const SSlot &s : slots) n += s.model.size(); return n; }
  void cell(int prop, uint64_t a, uint64_t b = 0, uint64_t c = 0, uint64_t d = 0, uint64_t e = 0) {
    if (stats) stats->cell(prop, ((((a * 64 + b) * 64 + c) * 64 + d) * 64) + e);
  }
  void viol(int kind, PropMask own, const std::string &what) { G.violate_ctx(kind, own, what); }

  static long model_index(const Model &m, Model::const_iterator it) { return (long)std::distance(m.begin(), it); }

  // walk + compare with the model
  bool check_slot(SSlot &s, const char *when) {
    std::vector<Val> fwd, rev;
    std::string err;
    const SetType &t = *s.type;
    PropMask base = base_of(s);
    if (!t.walk(s.obj, fwd, rev, err)) {
      bool lifecycle = err.find("visible element") != std::string::npos;
      viol(lifecycle ? VK_ELEM : VK_ITER, lifecycle ? (P(2) | base) : (t.flavour == SF_SMALL ? P(11) : base), std::string(when) + ": " + err);
      return false;
    }
    SetObs o = t.observe(s.obj);
    if (t.flavour == SF_FLAT && o.data && !o.dataInside && t.allocDomain && o.capacity) {
      // ledger cross-check: the buffer of the underlying vector is a live block obtained for exactly capacity() elements
      const SimHeap::Block *b = g_heap.find_live(o.data);
      if (!b) { viol(VK_ALLOC, P(6), std::string(when) + ": the underlying vector's data() does not designate a live block of the allocator"); return false; }
      if (b->bytes != o.capacity * o.elemSize) {
        char m[200];
        snprintf(m, sizeof m, "%s: capacity() is %zu but the buffer was obtained / last reallocated for %zu elements", when, o.capacity, b->bytes / o.elemSize);
        viol(VK_ALLOC, P(6), m);
        return false;
      }
    }
    if (fwd.size() != o.size || rev.size() != o.size) {
      char m[160];
      snprintf(m, sizeof m, "%s: walking begin()..end() visits %zu elements, rbegin()..rend() %zu, size() is %zu", when, fwd.size(), rev.size(), o.size);
      viol(VK_ITER, t.flavour == SF_SMALL ? P(11) : base, m);
      return false;
    }
    if (o.size != s.model.size() || o.empty != s.model.empty()) {
      char m[160];
      snprintf(m, sizeof m, "%s: size() is %zu (empty()=%d), std::set has %zu elements", when, o.size, (int)o.empty, s.model.size());
      viol(VK_MODEL, base, m);
      return false;
    }
    std::vector<Val> want(s.model.begin(), s.model.end());
    if (t.flavour == SF_FLAT) {
      for (size_t i = 0; i < want.size(); ++i)
        if (fwd[i] != want[i]) {
          char m[200];
          snprintf(m, sizeof m, "%s: element [%zu] is %d:%d, std::set has %d:%d at that rank (contents or order differ)", when, i, fwd[i].key, fwd[i].pay, want[i].key,
                   want[i].pay);
          viol(VK_MODEL, base, m);
          return false;
        }
      for (size_t i = 0; i < want.size(); ++i)
        if (rev[i] != want[want.size() - 1 - i]) { viol(VK_ITER, base, std::string(when) + ": reverse iteration is not the reverse of forward iteration"); return false; }
    } else {
      std::vector<Val> a = fwd, b = rev;
      std::sort(a.begin(), a.end()); std::sort(b.begin(), b.end()); std::sort(want.begin(), want.end());
      if (a != want) {
        char m[160];
        snprintf(m, sizeof m, "%s: the elements reached by iteration are not the elements std::set holds (as a set)", when);
        viol(VK_MODEL, base, m);
        return false;
      }
      if (b != want) { viol(VK_ITER, P(11), std::string(when) + ": reverse iteration does not visit every element exactly once"); return false; }
    }
    s.fwd = fwd;
    return true;
  }

  void resync(SSlot &s, const char *why) {
    std::vector<Val> fwd, rev;
    std::string err;
    if (!s.type->walk(s.obj, fwd, rev, err)) { viol(VK_FAULT, P(9), std::string(why) + ": " + err); return; }
    SetObs o = s.type->observe(s.obj);
    if (fwd.size() != o.size) { viol(VK_FAULT, P(9) | base_of(s), std::string(why) + ": size() inconsistent with iteration"); return; }
    ModelCmp mc{s.mode};
    if (s.type->flavour == SF_FLAT)
      for (size_t i = 1; i < fwd.size(); ++i)
        if (!mc(fwd[i - 1], fwd[i])) { viol(VK_FAULT, P(9) | P(3), std::string(why) + ": FlatSet no longer sorted and duplicate-free"); return; }
    Model nm(mc);
    for (const Val &v : fwd)
      if (!nm.insert(v).second) { viol(VK_FAULT, P(9) | base_of(s), std::string(why) + ": set holds two equivalent elements"); return; }
    s.model.swap(nm);
    s.fwd = fwd;
  }

  RunOut run(bool keep) {
    G.reset_run(plan.env);
    G.keepTranscript = keep;
    g_heap.reset();
    g_elems.reset();
    g_reallocExpect.known = false;
    slots.resize(plan.types.size());
    int baseMode = plan.cmpMode & 15;
    if (baseMode < 1 || baseMode > 3) baseMode = 1;
    for (size_t i = 0; i < slots.size(); ++i) {
      SSlot &s = slots[i];
      s.typeIdx = plan.types[i] % fam.types.size();
      s.type = fam.types[s.typeIdx];
      s.mode = s.type->cmpTag ? (baseMode % 3) + 1 : baseMode;
      s.model = Model(ModelCmp{s.mode});
      s.obj = raw_alloc(*s.type);
      G.begin_op(-1, -1, (1 << 18) + (int)i, "construct");
      s.type->construct(s.obj, s.mode);
    }
    G.baseProps = base_of(slots[0]);
    {
      std::string hdr = "run config=" + fam.name + " cmp=" + std::to_string(baseMode) + " pool=";
      for (SSlot &s : slots) hdr += s.type->name + ";";
      G.tr(hdr);
    }
    for (size_t i = 0; i < plan.ops.size() && !G.viol.set(); ++i) step((int)i, plan.ops[i]);
    RunOut out;
    if (!G.viol.set()) teardown();
    else for (SSlot &s : slots) free(s.obj);
    out.viol = G.viol; out.hash = G.trHash; out.opsExecuted = opsExecuted; out.relocExecuted = relocExecuted;
    if (keep) out.transcript = G.transcript;
    if (stats) {
      ++stats->runs;
      stats->ops += G.totOps; stats->allocEvents += G.totAllocEv; stats->elemEvents += G.totElemEv; stats->cmpCalls += G.totCmp;
      stats->faultsFiredElem += G.faultsFiredElem; stats->faultsFiredAlloc += G.faultsFiredAlloc;
      stats->reallocMoved += G.reallocMoved; stats->reallocInPlace += G.reallocInPlace; stats->blockReused += G.blockReused;
      if (stats->hashes.size() < 200000) stats->hashes.insert(out.hash);
    }
    return out;
  }

  void teardown() {
    G.begin_op((int)plan.ops.size(), -1, 1 << 19, "teardown");
    for (SSlot &s : slots) { s.type->destroy(s.obj); free(s.obj); s.obj = nullptr; }
    if (G.viol.set()) return;
    if (g_elems.liveArmed != 0 || g_elems.liveHarness != 0) {
      char m[128];
      snprintf(m, sizeof m, "%ld element(s) still alive after every container was destroyed", g_elems.liveArmed + g_elems.liveHarness);
      G.violate(VK_ELEM, P(2), m);
    }
    g_heap.check_no_leak("after every container was destroyed");
    G.tr("teardown " + G.allocLog);
  }

  // ---- interpretation: false = recorded no-op
  bool interpret(const Op &op, SSlot &s, SSlot *w, SetIOp &io) {
    const SetType &t = *s.type;
    size_t sz = s.model.size();
    bool stayInline = (plan.cmpMode & 16) && t.flavour == SF_SMALL;
    size_t room = t.limit < 100000 ? (size_t)t.limit : 100000;
    io.kind = op.kind; io.stream = op.src % SRC_NKINDS; io.variant = (op.a >> 24) & 0xff; io.cmpMode = s.mode; io.fkind = op.fkind; io.fk = op.fk;
    auto key_present = [&](const Val &v) { return s.model.find(v) != s.model.end(); };
    auto pick_key = [&]() -> Val {  // present or absent key
      if (sz && ((op.b >> 8) & 3) != 0) { auto it = s.model.begin(); std::advance(it, op.b % sz); return *it; }
      return Val{int(op.a % plan.keyDom), 0};
    };
    auto may_add_one = [&](const Val &v) -> bool {  // would a single insert of v be acceptable in this state?
      if (key_present(v)) return true;
      if (sz + 1 > room) return false;
      if (stayInline && sz + 1 > t.N) return false;
      return true;
    };
    switch (op.kind) {
      case S_INSERT_COPY: case S_INSERT_MOVE: case S_EMPLACE: {
        io.vals.push_back(fresh(op.a, 0));
        if (!may_add_one(io.vals[0])) return false;
        return true;
      }
      case S_INSERT_HINT: case S_EMPLACE_HINT: {
        io.vals.push_back(fresh(op.a, 0));
        if (!may_add_one(io.vals[0])) return false;
        // half of the time the correct hint (from the model), otherwise any position in [begin, end]
        if (t.flavour == SF_FLAT && ((op.b >> 20) & 1)) {
          // a correct hint: where the value belongs; for a value that is already present also the position just after it
          io.pos = (size_t)model_index(s.model, ((op.b >> 21) & 1) ? s.model.upper_bound(io.vals[0]) : s.model.lower_bound(io.vals[0]));
        } else io.pos = op.b % (sz + 1);
        return true;
      }
      case S_INSERT_RANGE: case S_INSERT_IL: case S_CTOR_RANGE: case S_CTOR_IL: case S_ASSIGN_IL: {
        size_t n = (op.kind == S_INSERT_RANGE || op.kind == S_CTOR_RANGE) ? (((op.n >> 8) & 3) == 0 ? op.n % ((plan.cmpMode & 32) ? 200 : 24) : op.n % 6) : op.n % 4;
        size_t base = (op.kind == S_INSERT_RANGE || op.kind == S_INSERT_IL) ? sz : 0;
        if (base + n > room) n = room > base ? room - base : 0;
        if (stayInline && base + n > t.N) n = t.N > base ? t.N - base : 0;
        for (size_t i = 0; i < n; ++i) io.vals.push_back(fresh(op.a, (unsigned)i));
        return true;
      }
      case S_BULK: case S_FROM_VECTOR: case S_ASSIGN_VECTOR: {
        if (op.kind != S_BULK && !t.hasVectorOps) return false;
        if (stayInline) return false;
        size_t mx = (prof ? prof->bulkMax : 40) * ((plan.cmpMode & 32) ? 8 : 1);
        size_t n = 17 + op.n % (mx > 17 ? mx - 16 : 1);
        if (((op.n >> 12) & 7) == 0) n = op.n % 17;
        size_t base = op.kind == S_BULK ? sz : 0;
        if (base + n > room) n = room > base ? room - base : 0;
        for (size_t i = 0; i < n; ++i) { ++paygen; io.vals.push_back(Val{int((op.a + i * 2654435761u) % plan.keyDom), paygen}); }
        return true;
      }
      case S_ERASE_KEY: io.key = pick_key(); return true;
      case S_ERASE_POS: case S_EXTRACT_POS:
        if (!sz) return false;
        io.pos = ((op.b >> 16) & 3) == 0 ? sz - 1 : op.b % sz;
        return true;
      case S_ERASE_RANGE: {
        io.pos = op.b % (sz + 1);
        size_t len = ((op.n >> 8) & 7) == 0 ? op.n % (sz + 1) : op.n % 3;
        io.pos2 = io.pos + len > sz ? sz : io.pos + len;
        return true;
      }
      case S_ERASE_LOOP: case S_ERASE_IF:
        if (sz > 64) return false;
        io.mod = 1 + op.n % 3;
        return true;
      case S_CLEAR: case S_CTOR_DEFAULT: case S_WALK:
        io.pos = op.b;
        return true;
      case S_FIND: case S_BOUNDS: case S_FIND_HETERO:
        if (op.kind == S_BOUNDS && t.flavour != SF_FLAT) return false;
        if (op.kind == S_FIND_HETERO && !t.transparent) return false;
        io.key = pick_key();
        if (op.kind == S_FIND_HETERO && ((op.n >> 9) & 1)) {
          io.probeWidth = 1 + (op.n >> 11) % 4;  // a coarse probe (several equivalent elements)
          if (((op.n >> 14) & 7) == 0) io.probeWidth = 1 + (op.n >> 17) % (plan.keyDom < 96 ? plan.keyDom : 96);  // ... sometimes equivalent to a large part of the set
        }
        return true;
      case S_MERGE: case S_MERGE2: {
        if (!w) return false;
        size_t merged = sz;
        for (const Val &v : w->model) if (!key_present(v)) ++merged;
        if (merged > room) return false;
        if (stayInline && merged > t.N) return false;
        if (w->type->flavour == SF_SMALL && w->mode != s.mode && w->type->observe(w->obj).inlineState) {
          // The iteration order of an inline SmallSet is unspecified. If two of its elements are equivalent under the
          // destination's comparator, which of them is merged depends on that order: not generated (DESIGN section 8).
          Model tmp(ModelCmp{s.mode});
          for (const Val &v : w->model) tmp.insert(v);
          if (tmp.size() != w->model.size()) return false;
        }
        return true;
      }
      case S_EXTRACT_INSERT: {
        io.key = pick_key();
        io.toSelf = !w || ((op.n >> 4) & 3) == 0;
        io.pos = op.b;
        if (io.toSelf && (io.variant & 4) && t.flavour == SF_FLAT && ((op.b >> 20) & 1)) {
          // the correct hint for putting the extracted element back: its rank among the remaining elements
          auto mi = s.model.find(io.key);
          if (mi != s.model.end()) io.pos = (size_t)model_index(s.model, mi);
        }
        SSlot &tgt = io.toSelf ? s : *w;
        if (!io.toSelf) {
          auto mi = s.model.find(io.key);
          if (mi != s.model.end() && tgt.model.find(*mi) == tgt.model.end()) {
            size_t troom = tgt.type->limit < 100000 ? (size_t)tgt.type->limit : 100000;
            if (tgt.model.size() + 1 > troom) return false;
            if ((plan.cmpMode & 16) && tgt.type->flavour == SF_SMALL && tgt.model.size() + 1 > tgt.type->N) return false;
          }
        }
        return true;
      }
      case S_SWAP: case S_MOVE_ASSIGN: case S_CTOR_MOVE: case S_COMPARE:
        return w != nullptr;
      case S_COPY_ASSIGN: case S_CTOR_COPY:
        if (!w) return false;
        if (w->model.size() > room) return false;
        return true;
      case S_STEAL_VECTOR: case S_SHRINK:
        return t.hasVectorOps;
      case S_RESERVE: {
        if (!t.hasVectorOps) return false;
        size_t n = op.n % 48;
        if (n > room) n = room;
        io.count = n;
        return true;
      }
      case S_GROW_PAST_N: {
        if (t.flavour != SF_SMALL || stayInline) return false;
        size_t target = t.N + 1 + op.n % 3;
        size_t guard = 0;
        Model tmp = s.model;
        while (tmp.size() < target && guard++ < 4 * target + 16) {
          Val v = fresh(op.a, (unsigned)guard);
          io.vals.push_back(v);
          tmp.insert(v);
        }
        return !io.vals.empty();
      }
      case S_DRAIN:
        return sz != 0 && sz <= 200;
      case S_RELOCATE:
        return t.claimsTR && !plan.noReloc;
      default:
        return false;
    }
  }

  static unsigned log_bound(size_t n) { return 2u * (unsigned)std::ceil(std::log2((double)n + 1.0)) + 4u; }

  void step(int idx, const Op &op) {
    unsigned c = op.c % slots.size();
    SSlot &s = slots[c];
    SSlot *w = nullptr;
    if (slots.size() > 1 && (s_is_binary(op.kind) || op.kind == S_EXTRACT_INSERT)) {
      unsigned d0 = op.d % slots.size();
      for (unsigned k = 0; k < slots.size(); ++k) {
        unsigned d = (d0 + k) % slots.size();
        if (d == c) continue;
        bool sameType = slots[d].typeIdx == s.typeIdx;
        if (op.kind == S_MERGE2) { if (sameType || !fam.pairs[s.typeIdx][slots[d].typeIdx].merge) continue; }
        else if (!sameType) continue;
        w = &slots[d];
        break;
      }
    }
    // s = s, s = std::move(s), s.swap(s): legal for std::set (the moved-from-itself set is valid but unspecified, the others change nothing)
    if (op.self && (op.kind == S_COPY_ASSIGN || op.kind == S_MOVE_ASSIGN || op.kind == S_SWAP)) w = &s;
    const SetType &t = *s.type;
    G.begin_op(idx, op.kind, op.id, set_op_name(op.kind));
    G.baseProps = base_of(s);
    SetIOp io;
    int pay0 = paygen;
    bool live = interpret(op, s, w, io);
    char line[640];
    if (!live) {
      paygen = pay0;
      snprintf(line, sizeof line, "#%d %s c%u noop", idx, set_op_name(op.kind), c);
      G.tr(line);
      if (stats) ++stats->noops;
      return;
    }
    ++opsExecuted;
    if (s_is_macro(io.kind) || io.kind == S_RELOCATE) io.fkind = F_NONE;
    if (t.flavour == SF_SMALL && s_iter_op(io.kind)) G.ctxProps |= P(11);
    if (relocExecuted) G.ctxProps |= P(14);
    SetObs pre = t.observe(s.obj);
    SetObs wpre;
    if (w) wpre = w->type->observe(w->obj);
    size_t n0 = s.model.size();
    std::vector<Val> preFwd = s.fwd;  // walk order before the operation (positions refer to it)
    {
      auto sc = [&](const SSlot &x, const SetObs &o) -> std::string {
        if (x.type->flavour == SF_FLAT) return o.size == 0 ? "flat_empty" : (o.size > 16 ? "flat_big" : "flat");
        if (o.inlineState) return o.size == 0 ? "inline_empty" : (o.size >= x.type->N ? "inline_full" : "inline_partial");
        return o.size <= x.type->N ? "large_leN" : "large";
      };
      std::string so = std::string(set_op_name(io.kind)) + "(" + sc(s, pre);
      if (w) so += "," + sc(*w, wpre);
      if (io.kind == S_ERASE_POS || io.kind == S_EXTRACT_POS) so += io.pos + 1 == n0 ? ",last" : ",notlast";
      if (io.kind == S_INSERT_RANGE || io.kind == S_BULK || io.kind == S_CTOR_RANGE || io.kind == S_FROM_VECTOR || io.kind == S_ASSIGN_VECTOR)
        so += io.vals.size() > 16 ? ",n>16" : ",n<=16";
      if (io.fkind) so += io.fkind == F_ELEM ? ",elemfault" : ",allocfault";
      so += ",cmp" + std::to_string(s.mode) + ")";
      sigOps.push_back(so);
    }
    bool flagS = s.neverLarge, flagW = w ? w->neverLarge : true;
    // positions must refer to a verified walk
    if ((io.kind == S_ERASE_POS || io.kind == S_EXTRACT_POS || io.kind == S_ERASE_RANGE) && preFwd.size() != n0) {
      // first operation on a fresh slot: walk now
      if (!check_slot(s, "pre-walk")) return;
      preFwd = s.fwd;
    }
    G.faultKind = io.fkind; G.faultCountdown = io.fkind ? io.fk : -1;
    if (io.fkind && stats) ++stats->faultsAttached;
    g_reallocExpect.known = false;
    SetResult res;
    if (io.kind == S_RELOCATE) {
      void *fresh = raw_alloc(t);
      memcpy(fresh, s.obj, t.objSize);
      memset(s.obj, 0xA5, t.objSize);
      free(s.obj);
      s.obj = fresh;
      res.outcome = OUT_RETURNED;
      relocExecuted = true;
      cell(14, s.typeIdx, pre.inlineState, pre.size > 3 ? 3 : pre.size);
      if (stats) stats->probe(t.flavour == SF_SMALL ? (pre.inlineState ? "relocate_smallset_inline" : "relocate_smallset_large") : "relocate_flatset");
    } else if (io.kind == S_MERGE2) {
      fam.pairs[s.typeIdx][w->typeIdx].merge(s.obj, w->obj, res);
    } else {
      t.apply(s.obj, w ? w->obj : nullptr, io, res);
    }
    G.armed = false; G.faultKind = F_NONE;
    bool fired = G.faultFired;
    if (fired) G.ctxProps |= P(9);
    if (stats) {
      ++stats->opKinds[set_op_name(io.kind)];
      if (fired) ++stats->firedByOp[set_op_name(io.kind)];
    }
    if (res.outcome == OUT_NOOP) {
      paygen = pay0;
      snprintf(line, sizeof line, "#%d %s c%u unsupported", idx, set_op_name(io.kind), c);
      G.tr(line);
      return;
    }
    PropMask base = base_of(s);
    PropMask iterProp = t.flavour == SF_SMALL ? P(11) : base;
    bool threwFault = (res.outcome == OUT_THREW_FAULT || res.outcome == OUT_THREW_BADALLOC) && fired;
    // ---- comparator object (C03 / C04)
    if (!G.viol.set() && G.opPoisonCmpCalls) {
      char m[200];
      snprintf(m, sizeof m, "a default-constructed comparator was invoked %u time(s) in %s although the set was constructed with its own comparator object",
               G.opPoisonCmpCalls, set_op_name(io.kind));
      G.violate(VK_CMPOBJ, base, m);
    }
    if (!G.viol.set() && G.opCmpBytewise) {
      char m[200];
      snprintf(m, sizeof m, "the set's comparator object was moved by raw byte copy although its type is not trivially relocatable (%u call(s) on it in %s)",
               G.opCmpBytewise, set_op_name(io.kind));
      G.violate(VK_CMPOBJ, P(14) | P(2), m);
    }
    if (!G.viol.set() && res.outcome != OUT_RETURNED && !threwFault) {
      char m[200];
      snprintf(m, sizeof m, "unexpected exception (%s%s%s) from %s", outcome_name(res.outcome), res.exWhat.empty() ? "" : ": ", res.exWhat.c_str(), set_op_name(io.kind));
      viol(VK_MODEL, base, m);
    }
    // ---- an element life-cycle violation inside this call: is the visible content wrong as well? (attribution refinement)
    if (G.viol.set() && G.viol.kind == VK_ELEM && G.viol.opIndex == idx && res.outcome == OUT_RETURNED) {
      std::vector<Val> fwd, rev;
      std::string err;
      if (!t.walk(s.obj, fwd, rev, err)) G.viol.props |= base;
    }
    // ---- after an injected fault: basic guarantee
    if (!G.viol.set() && threwFault) {
      if (s_is_ctor(io.kind)) {
        s.model.clear();
        s.neverLarge = true;
        if (w) check_slot(*w, "source after a failed construction");
        if (!G.viol.set()) check_slot(s, "re-created set after a failed construction");
      } else if (io.kind == S_COPY_ASSIGN || (t.vecIsStd && (io.kind == S_INSERT_RANGE || io.kind == S_INSERT_IL || io.kind == S_BULK || io.kind == S_ASSIGN_IL))) {
        // The underlying operation only has the basic guarantee (element-wise copy assignment; libstdc++'s range insert
        // may even leave moved-from elements): the set may hold any mixture. It must still be usable: clear it and go on.
        if (io.kind == S_COPY_ASSIGN) {
          std::vector<Val> fwd, rev;
          std::string err;
          if (!t.walk(s.obj, fwd, rev, err)) viol(VK_FAULT, P(9), "after an injected fault in copy assignment: " + err);
        }
        if (!G.viol.set()) {
          SetIOp clr;
          clr.kind = S_CLEAR;
          SetResult r2;
          t.apply(s.obj, nullptr, clr, r2);
          s.model.clear();
          if (stats) stats->probe("cleared_after_basic_guarantee_fault");
        }
        if (w && !G.viol.set()) check_slot(*w, "source after a failed copy assignment");
      } else {
        resync(s, "after an injected fault");
        if (w && !G.viol.set()) resync(*w, "partner after an injected fault");
      }
      s.neverLarge = s.neverLarge && t.flavour == SF_SMALL && false;  // a failed growth attempt may have allocated
      if (w) w->neverLarge = false;
      cell(9, 32 + s.typeIdx, io.kind, pre.inlineState, G.faultFiredKind, io.fk < 6 ? io.fk : 6);
    }
    // ---- model and result comparison
    if (!G.viol.set() && res.outcome == OUT_RETURNED) apply_model_and_compare(io, s, w, res, preFwd, n0, base, iterProp);
    // ---- C05 (SmallSet)
    if (!G.viol.set()) {
      bool threw = res.outcome != OUT_RETURNED;
      if (!threw) {
        switch (io.kind) {
          case S_MERGE: case S_MERGE2: s.neverLarge = flagS && flagW; break;
          case S_SWAP: s.neverLarge = w->neverLarge = flagS && flagW; break;
          case S_COPY_ASSIGN: case S_MOVE_ASSIGN: s.neverLarge = flagS && flagW; break;
          case S_CTOR_COPY: case S_CTOR_MOVE: s.neverLarge = flagW; break;
          case S_CTOR_DEFAULT: case S_CTOR_RANGE: case S_CTOR_IL: s.neverLarge = true; break;
          case S_EXTRACT_INSERT: if (!io.toSelf) w->neverLarge = flagS && flagW; break;
          default: break;
        }
      }
      if (s.model.size() > t.N) s.neverLarge = false;
      if (w && w->model.size() > w->type->N) w->neverLarge = false;
      if (t.flavour == SF_SMALL && !threw && flagS && s.neverLarge && (!w || (flagW && w->neverLarge))) {
        if (G.opAllocCalls || G.opReallocCalls || G.opDeallocCalls || G.opGlobalNew) {
          char m[220];
          snprintf(m, sizeof m, "SmallSet made %u allocator request(s) (%s; global new %u) in %s although it has never held more than N=%u elements",
                   G.opAllocCalls + G.opReallocCalls + G.opDeallocCalls, G.allocLog.c_str(), G.opGlobalNew, set_op_name(io.kind), t.N);
          G.violate(VK_INLINE, P(5), m);
        }
        cell(5, 32 + s.typeIdx, io.kind, pre.size > 3 ? 3 : pre.size);
      }
    }
    // ---- contents (target and partner), conservation, canaries
    if (!G.viol.set()) check_slot(s, set_op_name(io.kind));
    if (!G.viol.set() && w) check_slot(*w, "partner");
    if (!G.viol.set() && t.flavour == SF_SMALL && s.neverLarge) {
      SetObs post = t.observe(s.obj);
      if (!post.inlineState) G.violate(VK_INLINE, P(5), "SmallSet stores elements outside the object although it has never held more than N elements");
    }
    if (!G.viol.set() && fam.types[0]->elemHooks) {
      long want = (long)total_model();
      if (g_elems.liveArmed != want || g_elems.liveHarness != 0) {
        char m[200];
        snprintf(m, sizeof m, "live element objects created by the containers: %ld, elements owned by the containers: %ld (%s); harness temporaries alive: %ld",
                 g_elems.liveArmed, want, g_elems.liveArmed > want ? "leak" : "lost element / destroyed twice", g_elems.liveHarness);
        viol(VK_ELEM, P(2) | (fired ? base : 0), m);  // after a fault: the set itself is no longer what a std::set would be either
      }
    }
    if (!G.viol.set()) g_heap.check_canaries();
    // ---- C19 comparator budgets
    if (!G.viol.set() && res.outcome == OUT_RETURNED) {
      static const char *callName[] = {"find", "contains", "count", "lower_bound", "upper_bound", "equal_range", "insert", "emplace", "erase(key)", "hinted insert", "hinted node insert"};
      for (const CmpUse &u : res.cmp) {
        if (t.flavour == SF_FLAT) {
          if (u.call <= 8) {
            unsigned b = log_bound(n0);
            if (u.calls > b) {
              char m[200];
              snprintf(m, sizeof m, "FlatSet::%s used %u comparator calls on a set of %zu elements (bound 2*ceil(log2(n+1))+4 = %u)", callName[u.call], u.calls, n0, b);
              G.violate(VK_CMPCOUNT, P(19), m);
              break;
            }
            cell(19, s.typeIdx, u.call, n0 < 2 ? 0 : n0 < 17 ? 1 : n0 < 129 ? 2 : n0 < 1025 ? 3 : 4, u.calls < 63 ? u.calls : 63);
          } else if (u.call == 9 || u.call == 10) {
            bool correct = (size_t)lbBefore == io.pos || (size_t)ubBefore == io.pos;
            if (u.call == 10 && !(io.toSelf && (io.variant & 4))) correct = false;  // hinted node insertion is budgeted when it goes back into the same set
            if (correct && u.calls > 8) {  // the implementation needs at most 4; log2(n)+2 exceeds 8 from n = 128 on
              char m[200];
              snprintf(m, sizeof m, "insertion with a correct hint used %u comparator calls on a set of %zu elements (must be bounded by a constant)", u.calls, n0);
              G.violate(VK_CMPCOUNT, P(19), m);
              break;
            }
            if (correct) { cell(19, s.typeIdx, 9, n0 < 17 ? 1 : n0 < 129 ? 2 : n0 < 1025 ? 3 : 4, u.calls < 63 ? u.calls : 63); if (stats) stats->probe("correct_hint_insertions"); }
          }
        } else if (pre.inlineState && n0 <= t.N && u.call <= 2) {
          unsigned b = 2 * t.N + 2;
          if (u.calls > b) {
            char m[200];
            snprintf(m, sizeof m, "inline SmallSet::%s used %u comparator calls (bound 2N+2 = %u)", callName[u.call], u.calls, b);
            G.violate(VK_CMPCOUNT, P(19), m);
            break;
          }
          cell(19, 32 + s.typeIdx, u.call, n0, u.calls < 63 ? u.calls : 63);
        }
      }
    }
    // ---- coverage cells
    if (stats && !G.viol.set()) {
      SetObs post = t.observe(s.obj);
      int crosses = pre.inlineState != post.inlineState;
      int prop = t.flavour == SF_FLAT ? 3 : 4;
      cell(prop, s.typeIdx, io.kind, (n0 < 7 ? n0 : 7) * 2 + pre.inlineState, crosses, w ? 1 + (wpre.inlineState ? 1 : 0) : 0);
      if (t.flavour == SF_SMALL) {
        cell(11, s.typeIdx, io.kind, (n0 < 7 ? n0 : 7) * 2 + pre.inlineState, crosses, res.hasIt ? (res.itEnd ? 1 : 2) : 0);
        if (crosses) stats->probe(pre.inlineState ? "smallset_inline_to_large" : "smallset_large_to_inline");
        if (io.kind == S_ERASE_POS && !pre.inlineState && post.size == 0) stats->probe("erase_last_element_of_large_set");
      }
      if (relocExecuted && io.kind != S_RELOCATE) cell(14, 32 + s.typeIdx, io.kind, pre.inlineState);
      if (io.vals.size() > 16 && (io.kind == S_BULK || io.kind == S_INSERT_RANGE || io.kind == S_FROM_VECTOR || io.kind == S_CTOR_RANGE)) stats->probe("bulk_insert_over_16");
      if (g_elems.selfMoveOutsideVec) stats->probe("self_move_inside_std_algorithms");
    }
    // ---- transcript
    {
      std::string cont;
      char b[32];
      size_t k = 0;
      for (const Val &v : s.fwd) { if (k++ >= 20) { cont += " .."; break; } snprintf(b, sizeof b, "%s%d:%d", k > 1 ? " " : "", v.key, v.pay); cont += b; }
      SetObs post = t.observe(s.obj);
      snprintf(line, sizeof line, "#%d %s c%u%s%s pos=%zu,%zu key=%d nv=%zu st=%s f=%d:%d -> %s%s sz=%zu in=%d flag=%d cnt=%ld it=%d/%d:%d cmp=%u [%s] %s ev=%u,%u,%u,%u,%u,%u,%u",
               idx, set_op_name(io.kind), c, w ? " d" : "", w ? std::to_string((unsigned)(w - &slots[0])).c_str() : "", io.pos, io.pos2, io.key.key, io.vals.size(),
               src_name(io.stream), io.fkind, io.fk, outcome_name(res.outcome), fired ? "!" : "", post.size, (int)post.inlineState, (int)res.flag, res.count,
               res.hasIt ? (int)res.itEnd : -1, res.itVal.key, res.itVal.pay, G.opCmpCalls, cont.c_str(), G.allocLog.c_str(), G.opElemEv[0], G.opElemEv[1],
               G.opElemEv[2], G.opElemEv[3], G.opElemEv[4], G.opElemEv[5], G.opElemEv[6]);
      G.tr(line);
    }
  }

  long lbBefore = 0, ubBefore = 0;

  // designated element checks
  bool expect_it(const SetResult &res, bool expectEnd, const Val &expectVal, const char *what, PropMask iterProp) {
    if (!res.hasIt) return true;
    if (!res.itValid) {
      viol(VK_ITER, iterProp, std::string(what) + ": the returned iterator is neither end() nor an iterator to an element of the set");
      return false;
    }
    if (res.itEnd != expectEnd) {
      viol(VK_ITER, iterProp, std::string(what) + (expectEnd ? ": the returned iterator should compare equal to end() but designates an element"
                                                              : ": the returned iterator compares equal to end() but should designate an element"));
      return false;
    }
    if (!expectEnd && res.itVal != expectVal) {
      char m[200];
      snprintf(m, sizeof m, "%s: the returned iterator designates %d:%d, expected %d:%d", what, res.itVal.key, res.itVal.pay, expectVal.key, expectVal.pay);
      viol(VK_ITER, iterProp, m);
      return false;
    }
    return true;
  }

  static void model_insert_all(Model &m, const std::vector<Val> &x) { for (const Val &v : x) m.insert(v); }

  void apply_model_and_compare(const SetIOp &io, SSlot &s, SSlot *w, const SetResult &res, const std::vector<Val> &preFwd, size_t n0, PropMask base,
                               PropMask iterProp) {
    Model &m = s.model;
    const std::vector<Val> &x = io.vals;
    const char *name = set_op_name(io.kind);
    (void)n0;
    switch (io.kind) {
      case S_INSERT_COPY: case S_INSERT_MOVE: case S_EMPLACE: {
        auto mr = m.insert(x[0]);
        if (res.flag != mr.second) { viol(VK_MODEL, base, std::string(name) + ": returned 'inserted' flag differs from std::set"); return; }
        expect_it(res, false, *mr.first, name, iterProp);
      } break;
      case S_INSERT_HINT: case S_EMPLACE_HINT: {
        lbBefore = model_index(m, m.lower_bound(x[0]));
        ubBefore = model_index(m, m.upper_bound(x[0]));
        auto mr = m.insert(x[0]);
        expect_it(res, false, *mr.first, name, iterProp);
      } break;
      case S_INSERT_RANGE: case S_INSERT_IL: case S_BULK: case S_GROW_PAST_N:
        model_insert_all(m, x);
        break;
      case S_CTOR_RANGE: case S_CTOR_IL: case S_ASSIGN_IL: case S_FROM_VECTOR: case S_ASSIGN_VECTOR:
        m.clear();
        model_insert_all(m, x);
        break;
      case S_ERASE_KEY: {
        long cnt = (long)m.erase(io.key);
        if (res.count != cnt) { viol(VK_MODEL, base, "erase(key) returned a different count than std::set"); return; }
      } break;
      case S_ERASE_POS: case S_EXTRACT_POS: {
        Val victim = preFwd[io.pos];
        m.erase(victim);
        if (io.kind == S_EXTRACT_POS) {
          if (res.nodeEmptyAfterExtract || res.nodeVal != victim) { viol(VK_MODEL, base, "extract(position) did not return a node owning the designated element"); return; }
        } else {
          bool expectEnd = io.pos + 1 >= preFwd.size();
          expect_it(res, expectEnd, expectEnd ? Val{0, 0} : preFwd[io.pos + 1], "erase(position)", iterProp);
        }
      } break;
      case S_ERASE_RANGE: {
        for (size_t i = io.pos; i < io.pos2; ++i) m.erase(preFwd[i]);
        bool expectEnd = io.pos2 >= preFwd.size();
        expect_it(res, expectEnd, expectEnd ? Val{0, 0} : preFwd[io.pos2], "erase(first, last)", iterProp);
      } break;
      case S_ERASE_LOOP: {
        if (!res.itValid) { viol(VK_ITER, iterProp, "erase-while-iterating loop: erase(position) returned an iterator that is neither end() nor an element of the set"); return; }
        if (res.loopOverrun) { viol(VK_ITER, iterProp, "erase-while-iterating loop does not terminate within size()+1 iterations"); return; }
        std::vector<Val> want;
        for (auto it = m.begin(); it != m.end();) {
          if (it->key % io.mod == 0) { want.push_back(*it); it = m.erase(it); } else ++it;
        }
        std::vector<Val> got = res.erased;
        std::sort(want.begin(), want.end()); std::sort(got.begin(), got.end());
        if (got != want) { viol(VK_ITER, iterProp, "erase-while-iterating loop ended without visiting every element (erased elements differ from the model)"); return; }
      } break;
      case S_ERASE_IF: {
        long cnt = 0;
        for (auto it = m.begin(); it != m.end();) { if (it->key % io.mod == 0) { it = m.erase(it); ++cnt; } else ++it; }
        if (res.count != cnt) { viol(VK_MODEL, base, "erase_if returned a different count"); return; }
      } break;
      case S_CLEAR: case S_CTOR_DEFAULT: case S_DRAIN: m.clear(); break;
      case S_FIND_HETERO:
        if (io.probeWidth) {
          // std::set with a probe that is equivalent to several elements: find designates any of them, count is how many there are
          RangeProbe pr{io.key.key, io.key.key + (int)io.probeWidth};
          auto lo = m.lower_bound(pr), hi = m.upper_bound(pr);
          long cnt = (long)std::distance(lo, hi);
          if (res.hasIt) {
            if (!res.itValid) { viol(VK_ITER, iterProp, "find(heterogeneous key): the returned iterator is neither end() nor an iterator to an element of the set"); return; }
            if (res.itEnd != (cnt == 0)) { viol(VK_ITER, iterProp, cnt ? "find(heterogeneous key): end() returned although equivalent elements exist" : "find(heterogeneous key): an element returned although none is equivalent"); return; }
            if (cnt) {
              bool in = false;
              for (auto it = lo; it != hi; ++it) in = in || *it == res.itVal;
              if (!in) { viol(VK_ITER, iterProp, "find(heterogeneous key): the returned iterator designates an element that is not equivalent to the key"); return; }
            }
          }
          if (res.flag2 != (cnt != 0)) { viol(VK_MODEL, base, "contains(heterogeneous key) differs from std::set"); return; }
          if (res.count != cnt) {
            char mm[160];
            snprintf(mm, sizeof mm, "count(heterogeneous key) returned %ld, std::set::count returns %ld (elements equivalent to the key)", res.count, cnt);
            viol(VK_MODEL, base, mm);
            return;
          }
          if (s.type->flavour == SF_FLAT && (res.idx[0] != model_index(m, lo) || res.idx[1] != model_index(m, hi))) {
            viol(VK_MODEL, base, "lower_bound/upper_bound with a heterogeneous key differ from std::set");
            return;
          }
          if (stats && cnt > 1) stats->probe("hetero_probe_matches_several");
          break;
        }
        // fall through
      case S_FIND: {
        auto mi = m.find(io.key);
        bool found = mi != m.end();
        if (!expect_it(res, !found, found ? *mi : Val{0, 0}, io.kind == S_FIND ? "find" : "find(heterogeneous key)", iterProp)) return;
        if (res.flag2 != found) { viol(VK_MODEL, base, "contains() differs from std::set"); return; }
        if (res.count != (long)(found ? 1 : 0)) { viol(VK_MODEL, base, "count() differs from std::set"); return; }
        if (io.kind == S_FIND_HETERO && s.type->flavour == SF_FLAT) {
          if (res.idx[0] != model_index(m, m.lower_bound(io.key)) || res.idx[1] != model_index(m, m.upper_bound(io.key))) {
            viol(VK_MODEL, base, "lower_bound/upper_bound with a heterogeneous key differ from std::set");
            return;
          }
        }
      } break;
      case S_BOUNDS: {
        long lb = model_index(m, m.lower_bound(io.key)), ub = model_index(m, m.upper_bound(io.key));
        if (res.idx[0] != lb) { viol(VK_MODEL, base, "lower_bound differs from std::set"); return; }
        if (res.idx[1] != ub) { viol(VK_MODEL, base, "upper_bound differs from std::set"); return; }
        if (ub == lb) { if (res.idx[2] != res.idx[3]) { viol(VK_MODEL, base, "equal_range of an absent key is not an empty range"); return; } }
        else if (res.idx[2] != lb || res.idx[3] != ub) { viol(VK_MODEL, base, "equal_range does not delimit the run of equivalent elements"); return; }
      } break;
      case S_MERGE: case S_MERGE2: {
        Model &mw = w->model;
        for (auto it = mw.begin(); it != mw.end();) {
          if (m.insert(*it).second) it = mw.erase(it); else ++it;
        }
      } break;
      case S_EXTRACT_INSERT: {
        auto mi = m.find(io.key);
        bool found = mi != m.end();
        if (res.nodeEmptyAfterExtract != !found) { viol(VK_MODEL, base, "extract(key): node emptiness differs from std::set"); return; }
        if (!found) break;
        Val v = *mi;
        if (res.nodeVal != v) { viol(VK_MODEL, base, "extract(key) returned a node owning another element"); return; }
        lbBefore = ubBefore = model_index(m, mi);
        m.erase(mi);
        SSlot &tgt = io.toSelf ? s : *w;
        auto mr = tgt.model.insert(v);
        bool hinted = res.bits & 1;
        if (!hinted && res.nodeInserted != mr.second) { viol(VK_MODEL, base_of(tgt), "insert(node): 'inserted' differs from std::set"); return; }
        if (!expect_it(res, false, *mr.first, "insert(node)", tgt.type->flavour == SF_SMALL ? P(11) : base_of(tgt))) return;
        if (mr.second) {
          if (!res.nodeEmptyAfterInsert) { viol(VK_MODEL, base_of(tgt), "insert(node) inserted the element but the node is not empty"); return; }
        } else if (!hinted) {
          if (res.nodeEmptyAfterInsert) { viol(VK_MODEL, base_of(tgt), "insert(node) met an equivalent element but the returned node no longer owns its value"); return; }
          if (res.reads.empty() || res.reads[0] != v) { viol(VK_MODEL, base_of(tgt), "insert(node) met an equivalent element and the node's value changed"); return; }
        } else if (res.nodeEmptyAfterInsert) {
          viol(VK_MODEL, base_of(tgt), "insert(hint, node) met an equivalent element but the node no longer owns its value");
          return;
        } else if (res.reads.empty() || res.reads[0] != v) {
          viol(VK_MODEL, base_of(tgt), "insert(hint, node) met an equivalent element and the node's value changed (moved-from)");
          return;
        }
      } break;
      case S_SWAP: m.swap(w->model); std::swap(s.mode, w->mode); break;
      case S_COPY_ASSIGN: case S_CTOR_COPY: m = w->model; s.mode = w->mode; break;
      case S_MOVE_ASSIGN: case S_CTOR_MOVE: {
        m = w->model; s.mode = w->mode;
        // moved-from set: valid but unspecified -> adopt what it holds
        std::vector<Val> fwd, rev;
        std::string err;
        if (!w->type->walk(w->obj, fwd, rev, err)) { viol(VK_ELEM, P(2) | base, "moved-from set: " + err); return; }
        w->model.clear();
        for (const Val &v : fwd) w->model.insert(v);
        if (stats && !fwd.empty()) stats->probe("moved_from_set_not_empty");
      } break;
      case S_COMPARE: {
        std::vector<Val> a(m.begin(), m.end()), b(w->model.begin(), w->model.end());
        unsigned bits = 0;
        if (a == b) bits |= 1;
        if (a != b) bits |= 2;
        if (a < b) bits |= 4;
        if (a <= b) bits |= 8;
        if (a > b) bits |= 16;
        if (a >= b) bits |= 32;
        if (res.bits != bits) {
          char mm[128];
          snprintf(mm, sizeof mm, "comparison operators give %#x, std::set gives %#x (bits ==,!=,<,<=,>,>=)", res.bits, bits);
          viol(VK_MODEL, base, mm);
        }
      } break;
      case S_WALK: {
        if ((res.bits & 1u) != (m.empty() ? 1u : 0u) || !(res.bits & 2) || !(res.bits & 4) || res.count != (long)m.size()) { viol(VK_MODEL, base, "empty()/size()/cbegin()/cend() inconsistent"); return; }
        if (s.type->flavour == SF_SMALL) {
          // postfix-increment walk, decrement walk from end(), postfix walk of the reverse iterators
          std::vector<Val> want = preFwd;                                  // it++ from begin()
          want.insert(want.end(), preFwd.rbegin(), preFwd.rend());         // --it from end()
          want.insert(want.end(), preFwd.rbegin(), preFwd.rend());         // it-- from end()
          want.insert(want.end(), preFwd.begin(), preFwd.end());           // rit-- from rend()
          want.insert(want.end(), preFwd.rbegin(), preFwd.rend());         // rit++ from rbegin()
          if (preFwd.size() == m.size() && res.reads != want) { viol(VK_ITER, P(11), "walking with postfix ++ / -- from end() / postfix ++ on reverse iterators does not visit the elements as prefix ++ does"); return; }
        }
        if (s.type->flavour == SF_FLAT && !m.empty()) {
          std::vector<Val> mv(m.begin(), m.end());
          std::vector<Val> want = {mv.front(), mv.back()};
          if (res.reads.size() > 2) { size_t i = io.pos % mv.size(); want.push_back(mv[i]); want.push_back(mv[i]); want.push_back(mv[i]); }
          if (res.reads != want) { viol(VK_MODEL, base, "front()/back()/operator[]/at()/data() differ from std::set"); return; }
        }
      } break;
      case S_STEAL_VECTOR: {
        std::vector<Val> mv(m.begin(), m.end());
        if (res.stolen != mv) { viol(VK_MODEL, base, "steal_vector() did not return the elements in order"); return; }
        m.clear();
      } break;
      default: break;
    }
    if (res.streamReadAfterEof || res.streamReread)
      viol(VK_MODEL, base, "single-pass input range was traversed more than once");
  }
};

}  // namespace

// ------------------------------------------------------------------------------------------------ Engine facade
namespace {
struct SetEngine : Engine {
  const char *name() const override { return "set"; }
  std::vector<std::string> families() const override {
    std::vector<std::string> r;
    for (SetFamily *f : set_families()) r.push_back(f->name);
    std::sort(r.begin(), r.end());
    return r;
  }
  bool has_family(const std::string &f) const override { return find_set_family(f) != nullptr; }
  std::vector<std::string> profiles() const override {
    std::vector<std::string> n;
    for (const SetProfile &p : set_profiles()) n.push_back(p.name);
    return n;
  }
  bool gen(const std::string &family, const std::string &profile, uint64_t runSeed, Plan &out) const override {
    const SetFamily *f = find_set_family(family);
    const SetProfile *p = set_profile(profile);
    if (!f || !p) return false;
    out = gen_set_plan(*f, *p, runSeed);
    return true;
  }
  bool gen_scenario(const std::string &family, uint64_t runSeed, Plan &out) const override {
    // C09 mode A on sets: a short prefix and one final operation
    const SetFamily *f = find_set_family(family);
    if (!f) return false;
    SetProfile p = *set_profile("sethist");
    p.meanLen = 6; p.maxLen = 12; p.swarm = false;
    out = gen_set_plan(*f, p, runSeed);
    out.profile = "scenario";
    static const int finals[] = {S_INSERT_COPY, S_INSERT_MOVE, S_INSERT_HINT, S_INSERT_RANGE, S_INSERT_IL, S_EMPLACE, S_EMPLACE_HINT, S_MERGE, S_MERGE2,
                                 S_COPY_ASSIGN, S_CTOR_COPY, S_CTOR_RANGE, S_CTOR_IL, S_ASSIGN_IL, S_FROM_VECTOR, S_ASSIGN_VECTOR, S_GROW_PAST_N, S_BULK,
                                 S_EXTRACT_INSERT, S_RESERVE, S_SHRINK};
    Rng r(runSeed ^ 0x5e7);
    Op fin = out.ops.empty() ? Op() : out.ops.back();
    fin.id = (int)out.ops.size(); fin.kind = finals[r.below(sizeof finals / sizeof finals[0])];
    fin.a = (unsigned)r.next(); fin.b = (unsigned)r.next(); fin.n = (unsigned)r.next(); fin.c = 0; fin.d = r.below(1000); fin.src = (int)r.below(SRC_NKINDS);
    for (Op &o : out.ops) { o.fkind = 0; if (r.chance(2, 3)) o.c = 0; }
    out.ops.push_back(fin);
    return true;
  }
  RunOut run(const Plan &p, Stats *stats, bool keep) const override {
    const SetFamily *f = find_set_family(p.config);
    if (!f) { RunOut o; o.viol.kind = VK_INTERNAL; o.viol.what = "unknown family " + p.config; return o; }
    SRunner r(p, *f, stats);
    return r.run(keep);
  }
  std::string signature(const Plan &p, const Violation &v) const override {
    const SetFamily *f = find_set_family(p.config);
    if (!f) return "?";
    SRunner r(p, *f, nullptr);
    r.run(false);
    std::string s = "elem=" + f->elem + " ops=[";
    for (size_t i = 0; i < r.sigOps.size(); ++i) s += (i ? ";" : "") + r.sigOps[i];
    return s + "] kind=" + vkind_name(v.kind);
  }
  const char *op_name(int k) const override { return set_op_name(k); }
  int op_kind(const std::string &n) const override { return set_op_kind(n); }
  std::string describe_family(const std::string &family) const override {
    const SetFamily *f = find_set_family(family);
    if (!f) return "{}";
    std::string s = "{\"family\":\"" + f->name + "\",\"elem\":\"" + f->elem + "\",\"types\":[";
    for (size_t i = 0; i < f->types.size(); ++i) s += std::string(i ? "," : "") + "\"" + f->types[i]->name + "\"";
    return s + "]}";
  }
};
}  // namespace
Engine *set_engine() {
  static SetEngine e;
  return &e;
}

}  // namespace sim
