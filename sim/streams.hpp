// Range-argument sources ("StreamSource"): every iterator category std::vector accepts, including a
// single-pass input stream with EOF whose copies share one cursor.  C++11-compatible.
#pragma once
#include <cstddef>
#include <deque>
#include <forward_list>
#include <iterator>
#include <list>
#include <vector>

#include "core.hpp"

namespace sim {

enum SrcKind { SRC_PTR = 0, SRC_RA, SRC_BIDI, SRC_FWD, SRC_MOVE, SRC_INPUT, SRC_NKINDS };
inline const char *src_name(int k) {
  static const char *n[] = {"ptr", "ra", "bidi", "fwd", "move", "input"};
  return (k >= 0 && k < SRC_NKINDS) ? n[k] : "?";
}

struct StreamStats {
  unsigned readsAfterEof;
  unsigned rereads;  // an element position read twice (second pass)
  StreamStats() : readsAfterEof(0), rereads(0) {}
};

template <class T>
struct InputStream {
  const std::vector<T> *data;
  size_t cursor;
  std::vector<unsigned char> readCount;
  StreamStats stats;
  explicit InputStream(const std::vector<T> &d) : data(&d), cursor(0), readCount(d.size(), 0) {}
};

/// Single-pass input iterator: all copies share the stream's cursor (like std::istream_iterator).
template <class T>
class InputIt {
 public:
  typedef std::input_iterator_tag iterator_category;
  typedef T value_type;
  typedef std::ptrdiff_t difference_type;
  typedef const T *pointer;
  typedef const T &reference;
  InputIt() : s_(nullptr) {}
  explicit InputIt(InputStream<T> *s) : s_(s) {}
  bool at_end() const { return !s_ || s_->cursor >= s_->data->size(); }
  reference operator*() const {
    if (at_end()) {
      ++s_->stats.readsAfterEof;
      if (s_->data->empty()) throw SimFault();  // nothing to hand out; the read itself is already recorded
      return s_->data->back();
    }
    if (s_->readCount[s_->cursor]++) ++s_->stats.rereads;
    return (*s_->data)[s_->cursor];
  }
  pointer operator->() const { return &**this; }
  InputIt &operator++() {
    if (s_ && s_->cursor < s_->data->size()) ++s_->cursor;
    return *this;
  }
  InputIt operator++(int) {
    InputIt t = *this;
    ++*this;
    return t;
  }
  bool operator==(const InputIt &o) const { return at_end() == o.at_end(); }
  bool operator!=(const InputIt &o) const { return !(*this == o); }

 private:
  InputStream<T> *s_;
};

}  // namespace sim
