// Vector engine: type-erased interface between the (non-template) interpreter/oracles and the per-type
// adapters that are the only place where amc vector templates are instantiated.
#pragma once
#include <cstdint>
#include <string>
#include <vector>

#include "core.hpp"
#include "plan.hpp"

namespace sim {

#define SIM_VEC_OPS(X)                                                                                            \
  X(PUSH_COPY) X(PUSH_MOVE) X(EMPLACE_BACK) X(INSERT_COPY) X(INSERT_MOVE) X(INSERT_N) X(INSERT_RANGE) X(INSERT_IL) \
  X(EMPLACE) X(ERASE1) X(ERASE_RANGE) X(POP_BACK) X(POP_BACK_VAL) X(RESIZE) X(RESIZE_V) X(CLEAR) X(RESERVE)        \
  X(SHRINK) X(ASSIGN_N) X(ASSIGN_RANGE) X(ASSIGN_IL) X(APPEND_RANGE) X(APPEND_N) X(APPEND_NV) X(APPEND_IL)         \
  X(COPY_ASSIGN) X(MOVE_ASSIGN) X(SWAP) X(SWAP2) X(CTOR_DEFAULT) X(CTOR_COPY) X(CTOR_MOVE) X(CTOR_N) X(CTOR_NV)    \
  X(CTOR_RANGE) X(CTOR_IL) X(CTOR_FROM_VEC) X(COMPARE) X(ACCESS) X(AT_OOR) X(ALIAS_PUSH) X(ALIAS_INSERT)           \
  X(ALIAS_INSERT_N) X(ALIAS_EMPLACE) X(ALIAS_EMPLACE_ARG) X(ALIAS_EMPLACE_BACK) X(ALIAS_EMPLACE_BACK_ARG)          \
  X(ALIAS_RESIZE) X(ALIAS_ASSIGN) X(ALIAS_APPEND) X(FILL_TO_N) X(FILL_TO_CAP) X(FILL_TO_LIMIT_MINUS) X(DRAIN)      \
  X(GROW_PAST_N) X(APPEND_LOOP) X(RELOCATE) X(ERASE_VALUE) X(ERASE_IF)

enum VecOpKind {
#define X(n) V_##n,
  SIM_VEC_OPS(X)
#undef X
      V_NKINDS
};
const char *vec_op_name(int k);
int vec_op_kind(const std::string &name);

enum Flavour { FL_STD = 0, FL_SMALL = 1, FL_FIXED = 2 };
enum Outcome { OUT_RETURNED = 0, OUT_THREW_LIMIT_OOR, OUT_THREW_LIMIT_OVF, OUT_THREW_FAULT, OUT_THREW_BADALLOC, OUT_THREW_OTHER, OUT_NOOP };
inline const char *outcome_name(int o) {
  static const char *n[] = {"ret", "out_of_range", "overflow_error", "fault", "bad_alloc", "other-exception", "noop"};
  return n[o];
}

/// An operation after interpretation against the current state: everything the adapter needs to perform the call.
struct IOp {
  int kind = V_NKINDS;
  size_t pos = 0, pos2 = 0;   // positions (insert/erase/at)
  size_t count = 0;           // element count / new size / reserve argument
  size_t srcIdx = 0;          // alias source index
  int stream = 0;             // SrcKind
  unsigned variant = 0;       // overload selector bits (with-allocator ctor, free swap, operator= il, ...)
  std::vector<Val> vals;      // fresh values used by the operation
  int fkind = F_NONE, fk = 0; // attached fault
  int mod = 0;                // predicate modulus for erase_if / value for erase
};

/// What the adapter observed.
struct Result {
  int outcome = OUT_NOOP;
  long retIndex = -1;        // returned iterator as index, -1 if none
  bool hasVal = false;
  Val val{0, 0};             // returned value (pop_back_val / reference result)
  unsigned bits = 0;         // comparison results etc.
  std::vector<Val> reads;    // values read through accessors
  bool refOk = true;         // emplace_back's returned reference designates back()
  std::string exWhat;
  // growth accounting of APPEND_LOOP
  unsigned growEvents = 0; uint64_t relocs = 0; size_t appended = 0;
  size_t growBadFrom = 0, growBadTo = 0;  // a growth step of APPEND_LOOP below the constant factor (capacity before / after)
  bool streamReadAfterEof = false, streamReread = false;
  long retCount = -1;        // erase / erase_if count
};

struct VecObs {
  size_t size = 0, capacity = 0, maxSize = 0;
  const void *data = nullptr;
  bool inside = false;  // data() lies inside the object
};

struct VecType {
  std::string name;
  int flavour = FL_STD;
  unsigned N = 0;             // inline capacity
  uint64_t limit = 0;         // max_size()
  bool limitThrows = true;    // exceeding the limit throws (false: UncheckedGrowingPolicy -> never generated)
  size_t objSize = 0, objAlign = 0, elemSize = 0;
  bool elemTriv = false, elemTR = false, elemHooks = false, elemNoexceptMove = true, elemArith = false;
  int ledgerMode = 0;         // ledger objects per element: 0 one, 1 two (pair), 2 one unless the value is (0,0) (nested container)
  bool claimsTR = false;      // the container declares itself trivially relocatable
  bool sizeSigned = false;
  unsigned sizeTypeId = 0;    // sizeof(size_type) * 2 + signedness: equal ids = same size_type
  int allocDomain = 0;        // 0: none (fixed)
  bool hasRealloc = false;    // allocator offers reallocate and T is TR
  bool hasExtras = true;      // AMC_NONSTD_FEATURES
  void (*construct)(void *at) = nullptr;
  void (*destroy)(void *at) = nullptr;
  VecObs (*observe)(const void *) = nullptr;
  /// walk [begin,end) checking every element's life-cycle state; false + err on a bad element
  bool (*snapshot)(const void *, std::vector<Val> &out, std::string &err) = nullptr;
  /// execute a unary or same-type binary operation (partner may be null)
  void (*apply)(void *self, void *partner, const IOp &, Result &) = nullptr;
};

struct VecPair {
  void (*swap2)(void *a, void *b, Result &) = nullptr;
  void (*ctorFromVec)(void *a /*raw*/, void *b, Result &) = nullptr;  // new(a) A(std::move(b)), b an amc::vector
};

struct VecFamily {
  std::string name;
  std::string elem;  // element category name
  std::vector<const VecType *> types;
  std::vector<std::vector<VecPair>> pairs;  // [i][j]
};

void register_vec_family(VecFamily *f);
const std::vector<VecFamily *> &vec_families();
const VecFamily *find_vec_family(const std::string &name);

}  // namespace sim
