// Per-type adapters of the set engine (FlatSet, SmallSet).  Included only by the set family TUs.
#pragma once
#include <amc/flatset.hpp>
#include <amc/smallset.hpp>
#include <amc/smallvector.hpp>

#include <algorithm>
#include <iterator>
#include <set>
#include <type_traits>
#include <vector>

#include "elems.hpp"
#include "set.hpp"
#include "simalloc.hpp"
#include "simcmp.hpp"
#include "streams.hpp"
#include "vecops.hpp"

namespace sim {

template <class S>
struct SetTraits;

template <class T, class C, class A, class V>
struct SetTraits<amc::FlatSet<T, C, A, V>> {
  static const bool flat = true;
  static const unsigned N = 0;
  typedef C Cmp;
  typedef V Vec;
  static const bool backingFlat = false;
};
template <class T, uintmax_t NN, class C, class A, class ST>
struct SetTraits<amc::SmallSet<T, NN, C, A, ST>> {
  static const bool flat = false;
  static const unsigned N = (unsigned)NN;
  typedef C Cmp;
  typedef ST Backing;
  static const bool backingFlat = !std::is_same<ST, std::set<T, C, A>>::value;
};

template <class V>
struct IsAmcVector : std::false_type {};
template <class T, class A, class S, class G, S N>
struct IsAmcVector<amc::Vector<T, A, S, G, N>> : std::true_type {};

template <class C>
struct CmpTagOf { static const int value = 0; };
template <int Tag, bool Tr>
struct CmpTagOf<SimCmpT<Tag, Tr>> { static const int value = Tag; };
template <int Tag>
struct CmpTagOf<SimCmpSelfT<Tag>> { static const int value = Tag; };

template <class C>
struct IsTransparentCmp : std::false_type {};
template <int Tag>
struct IsTransparentCmp<SimCmpT<Tag, true>> : std::true_type {};

template <class S>
struct SetAdapter {
  typedef typename S::value_type T;
  typedef typename S::allocator_type A;
  typedef SetTraits<S> TR;
  typedef typename TR::Cmp C;
  static const bool kFlat = TR::flat;
  template <class X, bool F>
  struct CanExtractPos { static const bool value = !SetTraits<X>::backingFlat; };
  template <class X>
  struct CanExtractPos<X, true> { static const bool value = IsAmcVector<typename SetTraits<X>::Vec>::value; };
  static const bool kCanExtractPos = CanExtractPos<S, TR::flat>::value;

  // the element an iterator designates, reached through its operator-> (not operator*)
  static const T &arrow(const T *p) { return *p; }
  template <class It>
  static const T &arrow(const It &it) { return *it.operator->(); }

  static S &ref(void *p) { return *static_cast<S *>(p); }
  static const S &cref(const void *p) { return *static_cast<const S *>(p); }

  static void construct(void *at, int mode) { ::new (at) S(C(mode)); }
  static void destroy(void *at) { ref(at).~S(); }

  static bool inside(const void *obj, const void *p) { return (const char *)p >= (const char *)obj && (const char *)p < (const char *)obj + sizeof(S); }

  static SetObs observe(const void *p) {
    const S &s = cref(p);
    SetObs o;
    o.size = (size_t)s.size(); o.empty = s.empty();
    if constexpr (kFlat) {
      o.inlineState = false;
#ifdef AMC_NONSTD_FEATURES
      o.capacity = (size_t)s.capacity();
      o.data = s.data();
      o.dataInside = inside(p, s.data());
      o.elemSize = sizeof(T);
#endif
    } else {
      // inline state: elements (if any) live inside the object
      o.inlineState = s.empty() || inside(p, std::addressof(*s.begin()));
    }
    return o;
  }

  static bool walk(const void *p, std::vector<Val> &fwd, std::vector<Val> &rev, std::string &err) {
    const S &s = cref(p);
    fwd.clear(); rev.clear();
    size_t n = (size_t)s.size();
    if (n > (1u << 20)) { err = "absurd size()"; return false; }
    size_t guard = 0;
    for (auto it = s.begin(); !(it == s.end()); ++it) {
      if (++guard > n + 1) { err = "forward walk does not reach end() after size()+1 steps"; return false; }
      const T &e = *it;
      int st = ElemIO<T>::state(e);
      if (st != ES_ALIVE) { err = std::string("visible element is ") + estate_name(st); return false; }
      fwd.push_back(ElemIO<T>::val(e));
    }
    guard = 0;
    for (auto it = s.rbegin(); !(it == s.rend()); ++it) {
      if (++guard > n + 1) { err = "reverse walk does not reach rend() after size()+1 steps"; return false; }
      const T &e = *it;
      int st = ElemIO<T>::state(e);
      if (st != ES_ALIVE) { err = std::string("visible element (reverse walk) is ") + estate_name(st); return false; }
      rev.push_back(ElemIO<T>::val(e));
    }
    return true;
  }

  // an iterator is never dereferenced before it has been matched against a fresh walk
  template <class It>
  static void check_it(const S &s, const It &it, SetResult &res) {
    HScope hs;
    res.hasIt = true;
    res.itEnd = (it == s.end());
    res.itValid = true;
    if (res.itEnd) return;
    size_t guard = 0, n = (size_t)s.size();
    for (auto w = s.begin(); !(w == s.end()); ++w) {
      if (w == it) { res.itVal = ElemIO<T>::val(*w); return; }
      if (++guard > n + 1) break;
    }
    res.itValid = false;
  }
  template <class It>
  static bool designates(const S &s, const It &it, Val &out) {
    size_t guard = 0, n = (size_t)s.size();
    for (auto w = s.begin(); !(w == s.end()); ++w) {
      if (w == it) { out = ElemIO<T>::val(*w); return true; }
      if (++guard > n + 1) break;
    }
    return false;
  }
  static typename S::const_iterator iter_at(const S &s, size_t pos) {
    auto it = s.begin();
    for (size_t i = 0; i < pos; ++i) ++it;
    return it;
  }
  template <class It>
  static long index_of(const S &s, const It &it) {
    long i = 0;
    for (auto w = s.begin(); !(w == s.end()); ++w, ++i)
      if (w == it) return i;
    return it == s.end() ? i : -2;
  }

  template <class F>
  static void with_range(const SetIOp &op, SetResult &res, F &&f) {
    std::vector<T> src;
    src.reserve(op.vals.size());
    for (const Val &x : op.vals) src.push_back(ElemIO<T>::make(x));
    switch (op.stream) {
      default:
      case SRC_PTR: { const T *b = src.data(); f(b, b + src.size()); } break;
      case SRC_RA: { std::deque<T> dq(src.begin(), src.end()); f(dq.cbegin(), dq.cend()); } break;
      case SRC_BIDI: { std::list<T> l(src.begin(), src.end()); f(l.cbegin(), l.cend()); } break;
      case SRC_FWD: { std::forward_list<T> l(src.begin(), src.end()); f(l.cbegin(), l.cend()); } break;
      case SRC_MOVE: { T *b = src.data(); f(std::make_move_iterator(b), std::make_move_iterator(b + src.size())); } break;
      case SRC_INPUT: {
        InputStream<T> st(src);
        struct Fin {
          InputStream<T> &s; SetResult &r;
          ~Fin() { r.streamReadAfterEof = s.stats.readsAfterEof != 0; r.streamReread = s.stats.rereads != 0; }
        } fin{st, res};
        f(InputIt<T>(&st), InputIt<T>());
      } break;
    }
  }
  template <class F>
  static void with_il(const SetIOp &op, F &&f) {
    const std::vector<Val> &x = op.vals;
    switch (x.size()) {
      case 0: { std::initializer_list<T> il{}; f(il); } break;
      case 1: { T a = ElemIO<T>::make(x[0]); std::initializer_list<T> il{a}; f(il); } break;
      case 2: { T a = ElemIO<T>::make(x[0]), b = ElemIO<T>::make(x[1]); std::initializer_list<T> il{a, b}; f(il); } break;
      default: { T a = ElemIO<T>::make(x[0]), b = ElemIO<T>::make(x[1]), c = ElemIO<T>::make(x[2]); std::initializer_list<T> il{a, b, c}; f(il); } break;
    }
  }

  template <class F>
  static void reconstruct(void *self, int mode, F &&ctor) {
    ref(self).~S();
    try {
      Arm a;
      ctor(self);
    } catch (...) {
      G.armed = false;
      ::new (self) S(C(mode));
      throw;
    }
  }

  static void apply(void *self, void *partner, const SetIOp &op, SetResult &res) {
    res.outcome = OUT_RETURNED;
    res.cmp.reserve(8);
    try {
      run(ref(self), partner ? static_cast<S *>(partner) : nullptr, self, op, res);
    } catch (SimFault &) {
      res.outcome = OUT_THREW_FAULT;
    } catch (std::bad_alloc &) {
      res.outcome = OUT_THREW_BADALLOC;
    } catch (std::out_of_range &e) {
      res.outcome = OUT_THREW_LIMIT_OOR; res.exWhat = e.what();
    } catch (std::overflow_error &e) {
      res.outcome = OUT_THREW_LIMIT_OVF; res.exWhat = e.what();
    } catch (std::exception &e) {
      res.outcome = OUT_THREW_OTHER; res.exWhat = e.what();
    } catch (...) {
      res.outcome = OUT_THREW_OTHER; res.exWhat = "unknown exception";
    }
    G.armed = false;
  }

#define SIM_CMP_BEGIN unsigned cmp0__ = G.opCmpCalls
#define SIM_CMP_END(id) res.cmp.push_back(CmpUse{(id), G.opCmpCalls - cmp0__})

  static void run(S &s, S *w, void *self, const SetIOp &op, SetResult &res) {
    const std::vector<Val> &x = op.vals;
    const S &cs = s;
    switch (op.kind) {
      case S_INSERT_COPY: {
        T t = ElemIO<T>::make(x[0]);
        G.armed = true; SIM_CMP_BEGIN; auto r = s.insert(t); SIM_CMP_END(6); G.armed = false;
        res.flag = r.second; check_it(s, r.first, res);
      } break;
      case S_INSERT_MOVE: {
        T t = ElemIO<T>::make(x[0]);
        G.armed = true; SIM_CMP_BEGIN; auto r = s.insert(std::move(t)); SIM_CMP_END(6); G.armed = false;
        res.flag = r.second; check_it(s, r.first, res);
      } break;
      case S_INSERT_HINT: {
        T t = ElemIO<T>::make(x[0]);
        auto h = iter_at(s, op.pos);
        G.armed = true; SIM_CMP_BEGIN;
        auto it = (op.variant & 1) ? s.insert(h, std::move(t)) : s.insert(h, t);
        SIM_CMP_END(9); G.armed = false;
        check_it(s, it, res);
      } break;
      case S_EMPLACE: {
        G.armed = true; SIM_CMP_BEGIN; auto r = ElemIO<T>::set_emplace(s, x[0]); SIM_CMP_END(7); G.armed = false;
        res.flag = r.second; check_it(s, r.first, res);
      } break;
      case S_EMPLACE_HINT: {
        auto h = iter_at(s, op.pos);
        G.armed = true; SIM_CMP_BEGIN; auto it = ElemIO<T>::set_emplace_hint(s, h, x[0]); SIM_CMP_END(9); G.armed = false;
        check_it(s, it, res);
      } break;
      case S_INSERT_RANGE: case S_BULK:
        with_range(op, res, [&](auto f, auto l) { Arm a; s.insert(f, l); });
        break;
      case S_INSERT_IL:
        with_il(op, [&](std::initializer_list<T> il) { Arm a; s.insert(il); });
        break;
      case S_ERASE_KEY: {
        T t = ElemIO<T>::make(op.key);
        G.armed = true; SIM_CMP_BEGIN; res.count = (long)s.erase(t); SIM_CMP_END(8); G.armed = false;
      } break;
      case S_ERASE_POS: {
        auto it = iter_at(s, op.pos);
        G.armed = true; auto nx = s.erase(it); G.armed = false;
        check_it(s, nx, res);
      } break;
      case S_ERASE_RANGE: {
        auto f = iter_at(s, op.pos), l = iter_at(s, op.pos2);
        G.armed = true; auto nx = s.erase(f, l); G.armed = false;
        check_it(s, nx, res);
      } break;
      case S_ERASE_LOOP: {
        size_t bound = (size_t)s.size() + 1;
        res.erased.reserve(bound);
        auto it = s.begin();
        res.itValid = true;
        while (true) {
          Val cur{0, 0};
          if (it == s.end()) break;
          if (!designates(s, it, cur)) { res.itValid = false; break; }
          if (++res.loopIters > bound) { res.loopOverrun = true; break; }
          if (cur.key % op.mod == 0) {
            G.armed = true; it = s.erase(it); G.armed = false;
            res.erased.push_back(cur);
          } else {
            ++it;
          }
        }
      } break;
      case S_ERASE_IF: {
#ifdef AMC_CXX20
        int m = op.mod;
        Arm a;
        res.count = (long)erase_if(s, [m](const T &e) { return ElemIO<T>::val(e).key % m == 0; });
#else
        res.outcome = OUT_NOOP;
#endif
      } break;
      case S_CLEAR: { Arm a; s.clear(); } break;
      case S_FIND: {
        T t = ElemIO<T>::make(op.key);
        G.armed = true;
        { SIM_CMP_BEGIN; auto it = cs.find(t); SIM_CMP_END(0); G.armed = false; check_it(s, it, res); G.armed = true; }
        { SIM_CMP_BEGIN; res.flag2 = cs.contains(t); SIM_CMP_END(1); }
        { SIM_CMP_BEGIN; res.count = (long)cs.count(t); SIM_CMP_END(2); }
        G.armed = false;
        res.flag = !res.itEnd;
      } break;
      case S_BOUNDS: {
        if constexpr (kFlat) {
          T t = ElemIO<T>::make(op.key);
          Arm a;
          { SIM_CMP_BEGIN; auto it = cs.lower_bound(t); SIM_CMP_END(3); res.idx[0] = it - cs.begin(); }
          { SIM_CMP_BEGIN; auto it = cs.upper_bound(t); SIM_CMP_END(4); res.idx[1] = it - cs.begin(); }
          { SIM_CMP_BEGIN; auto pr = cs.equal_range(t); SIM_CMP_END(5); res.idx[2] = pr.first - cs.begin(); res.idx[3] = pr.second - cs.begin(); }
        } else {
          res.outcome = OUT_NOOP;
        }
      } break;
      case S_FIND_HETERO: {
        if constexpr (IsTransparentCmp<C>::value) {
          auto lookups = [&](const auto &k) {
            G.armed = true;
            { SIM_CMP_BEGIN; auto it = cs.find(k); SIM_CMP_END(0); G.armed = false; check_it(s, it, res); G.armed = true; }
            { SIM_CMP_BEGIN; res.flag2 = cs.contains(k); SIM_CMP_END(1); }
            { SIM_CMP_BEGIN; res.count = (long)cs.count(k); SIM_CMP_END(2); }
            if constexpr (kFlat) {
              { SIM_CMP_BEGIN; auto it = cs.lower_bound(k); SIM_CMP_END(3); res.idx[0] = it - cs.begin(); }
              { SIM_CMP_BEGIN; auto it = cs.upper_bound(k); SIM_CMP_END(4); res.idx[1] = it - cs.begin(); }
            }
            G.armed = false;
          };
          if (op.probeWidth) lookups(RangeProbe{op.key.key, op.key.key + (int)op.probeWidth});  // coarse probe: may be equivalent to several elements
          else lookups(KeyProbe{op.key.key});
          res.flag = !res.itEnd;
        } else {
          res.outcome = OUT_NOOP;
        }
      } break;
      case S_MERGE: { Arm a; s.merge(*w); } break;
      case S_EXTRACT_INSERT: {
        typedef typename S::node_type Node;
        T t = ElemIO<T>::make(op.key);
        S &tgt = op.toSelf ? s : *w;
        G.armed = true;
        Node nh = s.extract(t);
        G.armed = false;
        res.nodeEmptyAfterExtract = nh.empty();
        if (!nh.empty()) {
          res.nodeVal = ElemIO<T>::val(nh.value());
          if (op.variant & 4) {
            auto h = iter_at(tgt, op.pos % ((size_t)tgt.size() + 1));
            G.armed = true; SIM_CMP_BEGIN; auto it = tgt.insert(h, std::move(nh)); SIM_CMP_END(10); G.armed = false;
            // check the iterator against the target set
            res.hasIt = true; res.itEnd = (it == tgt.end()); res.itValid = res.itEnd || designates(tgt, it, res.itVal);
            res.nodeEmptyAfterInsert = nh.empty();
            if (!nh.empty()) res.reads.push_back(ElemIO<T>::val(nh.value()));
            res.bits = 1;  // hinted form: no 'inserted' flag
          } else {
            G.armed = true; auto r = tgt.insert(std::move(nh)); G.armed = false;
            res.nodeInserted = r.inserted;
            res.hasIt = true; res.itEnd = (r.position == tgt.end()); res.itValid = res.itEnd || designates(tgt, r.position, res.itVal);
            res.nodeEmptyAfterInsert = r.node.empty();
            if (!r.node.empty()) res.reads.push_back(ElemIO<T>::val(r.node.value()));
          }
        }
      } break;
      case S_EXTRACT_POS: {
        if constexpr (kCanExtractPos) {
          typedef typename S::node_type Node;
          auto it = iter_at(s, op.pos);
          G.armed = true;
          Node nh = s.extract(it);
          G.armed = false;
          res.nodeEmptyAfterExtract = nh.empty();
          if (!nh.empty()) res.nodeVal = ElemIO<T>::val(nh.value());
        } else {
          res.outcome = OUT_NOOP;  // extract(const_iterator) does not compile for SmallSet over FlatSet nor FlatSet over std::vector
        }
      } break;
      case S_SWAP: {
        Arm a;
        if (op.variant & 1) { using std::swap; swap(s, *w); } else s.swap(*w);
      } break;
      case S_COPY_ASSIGN: { Arm a; s = *w; } break;
      case S_MOVE_ASSIGN: { Arm a; s = std::move(*w); } break;
      case S_ASSIGN_IL:
        with_il(op, [&](std::initializer_list<T> il) { Arm a; s = il; });
        break;
      case S_CTOR_DEFAULT:
        reconstruct(self, op.cmpMode, [&](void *at) { if (op.variant & 1) ::new (at) S(C(op.cmpMode), A()); else ::new (at) S(C(op.cmpMode)); });
        break;
      case S_CTOR_COPY:
        reconstruct(self, op.cmpMode, [&](void *at) { if (op.variant & 1) ::new (at) S(*w, A()); else ::new (at) S(*w); });
        break;
      case S_CTOR_MOVE:
        reconstruct(self, op.cmpMode, [&](void *at) { if (op.variant & 1) ::new (at) S(std::move(*w), A()); else ::new (at) S(std::move(*w)); });
        break;
      case S_CTOR_RANGE:
        with_range(op, res, [&](auto f, auto l) {
          reconstruct(self, op.cmpMode, [&](void *at) { if (op.variant & 1) ::new (at) S(f, l, C(op.cmpMode), A()); else ::new (at) S(f, l, C(op.cmpMode)); });
        });
        break;
      case S_CTOR_IL:
        with_il(op, [&](std::initializer_list<T> il) {
          reconstruct(self, op.cmpMode, [&](void *at) { if (op.variant & 1) ::new (at) S(il, C(op.cmpMode), A()); else ::new (at) S(il, C(op.cmpMode)); });
        });
        break;
      case S_COMPARE: {
        const S &a = s; const S &b = *w;
        Arm arm;
        unsigned bits = 0;
        if (a == b) bits |= 1;
        if (a != b) bits |= 2;
        if (a < b) bits |= 4;
        if (a <= b) bits |= 8;
        if (a > b) bits |= 16;
        if (a >= b) bits |= 32;
        res.bits = bits;
      } break;
      case S_WALK: {
        res.reads.reserve(8);
        Arm arm;
        res.bits = (cs.empty() ? 1u : 0u) | (cs.cbegin() == cs.begin() ? 2u : 0u) | (cs.cend() == cs.end() ? 4u : 0u);
        res.count = (long)cs.size();
        if constexpr (kFlat) {
          if (!cs.empty()) {
            res.reads.push_back(ElemIO<T>::val(cs.front()));
            res.reads.push_back(ElemIO<T>::val(cs.back()));
#ifdef AMC_NONSTD_FEATURES
            size_t i = op.pos % (size_t)cs.size();
            res.reads.push_back(ElemIO<T>::val(cs[(typename S::size_type)i]));
            res.reads.push_back(ElemIO<T>::val(cs.at((typename S::size_type)i)));
            res.reads.push_back(ElemIO<T>::val(cs.data()[i]));
#endif
          }
        }
        (void)cs.key_comp(); (void)cs.value_comp(); (void)cs.get_allocator(); (void)cs.max_size();
        if constexpr (!kFlat) {
          // the rest of the iterator interface: postfix increment, operator->, prefix/postfix decrement from end()
          G.armed = false;
          size_t n = (size_t)cs.size(), guard = 0;
          res.reads.reserve(5 * n + 4);
          G.armed = true;
          for (auto it = cs.begin(); !(it == cs.end()) && guard++ <= n; it++) { G.armed = false; res.reads.push_back(ElemIO<T>::val(arrow(it))); G.armed = true; }
          guard = 0;
          for (auto it = cs.end(); !(it == cs.begin()) && guard++ <= n;) { --it; G.armed = false; res.reads.push_back(ElemIO<T>::val(*it)); G.armed = true; }
          guard = 0;
          for (auto it = cs.end(); !(it == cs.begin()) && guard++ <= n;) { it--; G.armed = false; res.reads.push_back(ElemIO<T>::val(*it)); G.armed = true; }  // postfix --
          guard = 0;
          for (auto it = cs.rend(); !(it == cs.rbegin()) && guard++ <= n;) { it--; G.armed = false; res.reads.push_back(ElemIO<T>::val(*it)); G.armed = true; }  // reverse iterator, postfix --
          guard = 0;
          for (auto it = cs.rbegin(); !(it == cs.rend()) && guard++ <= n;) { auto cur = it++; G.armed = false; res.reads.push_back(ElemIO<T>::val(arrow(cur))); G.armed = true; }
        }
      } break;
      case S_FROM_VECTOR: case S_ASSIGN_VECTOR: case S_STEAL_VECTOR: case S_RESERVE: case S_SHRINK:
        vector_ops(s, self, op, res);
        break;
      case S_GROW_PAST_N:
        for (size_t i = 0; i < x.size(); ++i) { T t = ElemIO<T>::make(x[i]); Arm a; s.insert(std::move(t)); }
        break;
      case S_DRAIN: {
        Arm a;
        while (!s.empty()) s.erase(s.begin());
      } break;
      default:
        res.outcome = OUT_NOOP;
        break;
    }
  }

  static void vector_ops(S &s, void *self, const SetIOp &op, SetResult &res) {
#ifdef AMC_NONSTD_FEATURES
    if constexpr (kFlat) {
      typedef typename S::vector_type Vec;
      const std::vector<Val> &x = op.vals;
      switch (op.kind) {
        case S_FROM_VECTOR: {
          // the vector's elements end up owned by the set: they are created "by the containers" (but no fault is
          // injected while the argument is being prepared)
          int fk = G.faultKind;
          G.faultKind = F_NONE;
          G.armed = true;
          Vec vec;
          for (size_t i = 0; i < x.size(); ++i) vec.push_back(ElemIO<T>::make(x[i]));
          G.armed = false;
          G.faultKind = fk;
          reconstruct(self, op.cmpMode, [&](void *at) {
            if (op.variant & 1) ::new (at) S(std::move(vec), C(op.cmpMode), A()); else ::new (at) S(std::move(vec), C(op.cmpMode));
          });
        } break;
        case S_ASSIGN_VECTOR: {
          int fk = G.faultKind;
          G.faultKind = F_NONE;
          G.armed = true;
          Vec vec;
          for (size_t i = 0; i < x.size(); ++i) vec.push_back(ElemIO<T>::make(x[i]));
          G.faultKind = fk;
          s = std::move(vec);
          G.armed = false;
        } break;
        case S_STEAL_VECTOR: {
          G.armed = true;
          Vec v = s.steal_vector();
          G.armed = false;
          res.stolen.reserve(v.size());
          for (const T &e : v) res.stolen.push_back(ElemIO<T>::val(e));
          res.stolenCapacity = (size_t)v.capacity();
        } break;
        case S_RESERVE: { Arm a; s.reserve((typename S::size_type)op.count); } break;
        case S_SHRINK: { Arm a; s.shrink_to_fit(); } break;
        default: break;
      }
      return;
    }
#endif
    (void)s; (void)self; (void)op;
    res.outcome = OUT_NOOP;
  }

  static SetType *make_type(const char *name) {
    SetType *t = new SetType();
    t->name = name;
    t->flavour = kFlat ? SF_FLAT : SF_SMALL;
    t->N = TR::N;
    t->objSize = sizeof(S); t->objAlign = alignof(S);
    t->elemHooks = ElemIO<T>::hooks; t->elemTR = amc::is_trivially_relocatable<T>::value;
    t->claimsTR = amc::is_trivially_relocatable<S>::value;
    t->ordered = kFlat;
    t->transparent = IsTransparentCmp<C>::value;
    t->cmpTag = CmpTagOf<C>::value;
    t->backingFlat = TR::backingFlat;
    t->limit = ~0ull;
    if constexpr (kFlat) {
      typedef typename TR::Vec Vec;
#ifdef AMC_NONSTD_FEATURES
      t->hasVectorOps = true;
#endif
      t->vecIsStd = !IsAmcVector<Vec>::value;
      if constexpr (IsAmcVector<Vec>::value) {
        if (std::is_same<typename Vec::allocator_type, amc::vec::EmptyAlloc>::value) t->limit = (uint64_t)Vec::kInlineCapacity;
      }
    }
    t->allocDomain = AllocInfo<A>::domain;
    t->construct = &construct; t->destroy = &destroy; t->observe = &observe; t->walk = &walk; t->apply = &apply;
    return t;
  }
};

template <class A, class B>
struct SetPairAdapter {
  template <class AA, class BB>
  static auto try_merge(AA &a, BB &b, int) -> decltype(a.merge(b), void()) { a.merge(b); }
  template <class AA, class BB>
  static void try_merge(AA &, BB &, ...) {}
  template <class AA, class BB>
  static auto can_merge(int) -> decltype(std::declval<AA &>().merge(std::declval<BB &>()), std::true_type());
  template <class AA, class BB>
  static std::false_type can_merge(...);

  static void merge(void *a, void *b, SetResult &res) {
    res.outcome = OUT_RETURNED;
    try {
      Arm arm;
      try_merge(*static_cast<A *>(a), *static_cast<B *>(b), 0);
    } catch (SimFault &) { res.outcome = OUT_THREW_FAULT;
    } catch (std::bad_alloc &) { res.outcome = OUT_THREW_BADALLOC;
    } catch (std::out_of_range &e) { res.outcome = OUT_THREW_LIMIT_OOR; res.exWhat = e.what();
    } catch (...) { res.outcome = OUT_THREW_OTHER; }
    G.armed = false;
  }
  static SetPair make() {
    SetPair p;
    if (decltype(can_merge<A, B>(0))::value && !std::is_same<A, B>::value) p.merge = &merge;
    return p;
  }
};

template <class... Ss>
struct SetFamilyBuilder {
  template <class A>
  static void row(std::vector<SetPair> &out) { (out.push_back(SetPairAdapter<A, Ss>::make()), ...); }
  static SetFamily *build(const char *name, const char *elem, std::initializer_list<const char *> typeNames) {
    SetFamily *f = new SetFamily();
    f->name = name; f->elem = elem;
    auto it = typeNames.begin();
    (f->types.push_back(SetAdapter<Ss>::make_type(*it++)), ...);
    f->pairs.resize(sizeof...(Ss));
    size_t i = 0;
    ((row<Ss>(f->pairs[i++])), ...);
    return f;
  }
};

}  // namespace sim
