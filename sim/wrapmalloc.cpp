// Link-time seam for the *default* amc::allocator (SimpleAllocator: malloc / realloc / free).
// Linked with -Wl,--wrap=malloc,--wrap=realloc,--wrap=free: calls made by code compiled into the harness TUs (amc is
// header-only, so exactly its calls) arrive here.  While an amc call is on the stack they are served by SimHeap.
#include <cstddef>

#include "simheap.hpp"

extern "C" void *__real_malloc(size_t);
extern "C" void *__real_realloc(void *, size_t);
extern "C" void __real_free(void *);

using namespace sim;

extern "C" void *__wrap_malloc(size_t n) {
  if (G.armed && G.harnessDepth == 0) return g_heap.allocate(n, 0, 0, DOM_MALLOC, true);
  return __real_malloc(n);
}
extern "C" void *__wrap_realloc(void *p, size_t n) {
  // glibc: realloc(p, 0) with p != NULL frees the block and returns NULL (SimpleAllocator turns that NULL into std::bad_alloc)
  if (p && n == 0 && g_heap.owns(p)) { g_heap.deallocate(p, 0, 0, 0, DOM_MALLOC, false); return nullptr; }
  if (p ? g_heap.owns(p) : (G.armed && G.harnessDepth == 0)) return g_heap.reallocate(p, 0, n, 0, 0, DOM_MALLOC, false, true);
  return __real_realloc(p, n);
}
extern "C" void __wrap_free(void *p) {
  if (p && g_heap.owns(p)) { g_heap.deallocate(p, 0, 0, 0, DOM_MALLOC, false); return; }
  if (!p && G.armed && G.harnessDepth == 0) { ++G.opNullDealloc; return; }
  __real_free(p);
}
