#include "vecfam.hpp"
namespace sim {
static VecFamily *make() {
  typedef ETrivB E;  // 2-byte element: up to four inline slots share their bytes with the heap pointer
  return FamilyBuilder<amc::SmallVector<E, 4, AB<E>>, amc::SmallVector<E, 3, AM<E>, uint8_t>, amc::SmallVector<E, 7, AR<E>>, amc::vector<E, AS<E>>,
                       amc::FixedCapacityVector<E, 9>>::
      build("ETrivB_overlap", "ETrivB", {"SmallVector<4,B>", "SmallVector<3,M,u8>", "SmallVector<7,R>", "vector<S>", "Fixed<9>"});
}
}  // namespace sim
SIM_REGISTER_FAMILY(sim::make())
