// Family definitions of the vector engine.  One TU per (element category, family kind) so that the 16 cores are used.
#pragma once
#define AMC_NONSTD_FEATURES 1
#include "../vecops.hpp"

namespace sim {
template <class T> using AB = amc::BasicAllocatorWrapper<T, SimBasicAlloc>;  // amc::allocator's wrapper over the simulated basic allocator
template <class T> using AS = SimStdAlloc<T>;                                // std-like, no reallocate
template <class T> using AR = SimReallocAlloc<T>;                            // std-like + reallocate
template <class T> using AM = amc::allocator<T>;                             // the default allocator (malloc/realloc/free, redirected at link time)

template <class E>
VecFamily *make_family_basic(const char *name, const char *elem) {
  return FamilyBuilder<amc::vector<E, AB<E>>, amc::SmallVector<E, 3, AB<E>>, amc::SmallVector<E, 5, AB<E>, uint16_t>,
                       amc::FixedCapacityVector<E, 4>, amc::FixedCapacityVector<E, 7>, amc::vector<E, AB<E>, uint8_t>>::
      build(name, elem, {"vector<B>", "SmallVector<3,B>", "SmallVector<5,B,u16>", "Fixed<4>", "Fixed<7>", "vector<B,u8>"});
}
template <class E>
VecFamily *make_family_mixed(const char *name, const char *elem) {
  return FamilyBuilder<amc::vector<E, AS<E>>, amc::SmallVector<E, 2, AS<E>>, amc::vector<E, AR<E>, uint64_t>, amc::SmallVector<E, 8, AR<E>>,
                       amc::SmallVector<E, 1, AM<E>>, amc::vector<E, AM<E>>>::
      build(name, elem, {"vector<S>", "SmallVector<2,S>", "vector<R,u64>", "SmallVector<8,R>", "SmallVector<1,M>", "vector<M>"});
}
template <class E>
VecFamily *make_family_limits(const char *name, const char *elem) {
  return FamilyBuilder<amc::vector<E, AB<E>, uint8_t>, amc::SmallVector<E, 3, AB<E>, uint8_t>, amc::vector<E, AS<E>, int8_t>,
                       amc::SmallVector<E, 2, AR<E>, int8_t>, amc::FixedCapacityVector<E, 1>, amc::FixedCapacityVector<E, 255>,
                       amc::FixedCapacityVector<E, 6, amc::vec::UncheckedGrowingPolicy>>::
      build(name, elem, {"vector<B,u8>", "SmallVector<3,B,u8>", "vector<S,i8>", "SmallVector<2,R,i8>", "Fixed<1>", "Fixed<255>", "Fixed<6,unchecked>"});
}
}  // namespace sim

#define SIM_REGISTER_FAMILY(expr)                                   \
  namespace {                                                       \
  struct Reg {                                                      \
    Reg() { sim::register_vec_family(expr); }                       \
  } g_reg;                                                          \
  }
