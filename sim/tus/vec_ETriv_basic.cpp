#include "vecfam.hpp"
SIM_REGISTER_FAMILY(sim::make_family_basic<sim::ETriv>("ETriv_basic", "ETriv"))
