#include "vecfam.hpp"
SIM_REGISTER_FAMILY(sim::make_family_limits<sim::ENonTr<false>>("ENonTrX_limits", "ENonTrX"))
