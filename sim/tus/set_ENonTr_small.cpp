#include "setfam.hpp"
SIM_REGISTER_SET_FAMILY(sim::make_set_family_small<sim::ENonTr<true>>("ENonTr_small", "ENonTr"))
