#include "vecfam.hpp"
namespace sim {
static VecFamily *make() {
  typedef std::pair<ENonTr<true>, ETr> E;  // non-relocatable first member, relocatable second member
  return FamilyBuilder<amc::vector<E, AR<E>>, amc::SmallVector<E, 2, AS<E>>, amc::FixedCapacityVector<E, 5>, amc::SmallVector<E, 4, AB<E>>>::
      build("PairNT_basic", "pair<ENonTr,ETr>", {"vector<R>", "SmallVector<2,S>", "Fixed<5>", "SmallVector<4,B>"});
}
}  // namespace sim
SIM_REGISTER_FAMILY(sim::make())
