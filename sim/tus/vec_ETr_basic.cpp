#include "vecfam.hpp"
SIM_REGISTER_FAMILY(sim::make_family_basic<sim::ETr>("ETr_basic", "ETr"))
