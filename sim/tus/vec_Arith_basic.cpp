#include "vecfam.hpp"
namespace sim {
static VecFamily *make() {
  typedef double E;
  return FamilyBuilder<amc::vector<E, AB<E>>, amc::SmallVector<E, 3, AB<E>>, amc::FixedCapacityVector<E, 5>, amc::vector<E, AM<E>>, amc::SmallVector<E, 2, AS<E>, uint8_t>,
                       amc::SmallVector<E, 1, AR<E>>>::
      build("Arith_basic", "double", {"vector<B>", "SmallVector<3,B>", "Fixed<5>", "vector<M>", "SmallVector<2,S,u8>", "SmallVector<1,R>"});
}
}  // namespace sim
SIM_REGISTER_FAMILY(sim::make())
