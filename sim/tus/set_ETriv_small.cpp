#include "setfam.hpp"
SIM_REGISTER_SET_FAMILY(sim::make_set_family_small<sim::ETriv>("ETriv_small", "ETriv"))
