#include "vecfam.hpp"
SIM_REGISTER_FAMILY(sim::make_family_basic<sim::ENonTr<true>>("ENonTr_basic", "ENonTr"))
