#include "setfam.hpp"
#include <string>
SIM_REGISTER_SET_FAMILY(sim::make_set_family_flat<std::string>("Str_flat", "std::string"))
