#include "vecfam.hpp"
namespace sim {
static VecFamily *make() {
  typedef std::pair<ETr, ENonTr<true>> E;  // relocatable first member, non-relocatable second member
  return FamilyBuilder<amc::vector<E, AB<E>>, amc::SmallVector<E, 3, AB<E>>, amc::FixedCapacityVector<E, 4>, amc::SmallVector<E, 2, AR<E>>>::
      build("PairTN_basic", "pair<ETr,ENonTr>", {"vector<B>", "SmallVector<3,B>", "Fixed<4>", "SmallVector<2,R>"});
}
}  // namespace sim
SIM_REGISTER_FAMILY(sim::make())
