#include "vecfam.hpp"
SIM_REGISTER_FAMILY(sim::make_family_mixed<sim::ETriv>("ETriv_mixed", "ETriv"))
