#include "vecfam.hpp"
namespace sim {
static VecFamily *make() {
  typedef std::pair<ETr, ETr> E;  // both members relocatable: the pair is, too (byte-wise relocation, reallocate)
  return FamilyBuilder<amc::vector<E, AR<E>>, amc::SmallVector<E, 3, AB<E>>, amc::FixedCapacityVector<E, 4>, amc::vector<E, AM<E>>>::
      build("PairTT_basic", "pair<ETr,ETr>", {"vector<R>", "SmallVector<3,B>", "Fixed<4>", "vector<M>"});
}
}  // namespace sim
SIM_REGISTER_FAMILY(sim::make())
