#include "vecfam.hpp"
SIM_REGISTER_FAMILY(sim::make_family_mixed<sim::ENonTr<false>>("ENonTrX_mixed", "ENonTrX"))
