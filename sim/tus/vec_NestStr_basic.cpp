#include "vecfam.hpp"
#include <string>
namespace sim {
static VecFamily *make() {
  typedef amc::SmallVector<std::string, 2, AS<std::string>> E;  // a container of the library as element, holding a short string inline
  return FamilyBuilder<amc::vector<E, AB<E>>, amc::SmallVector<E, 3, AB<E>>, amc::FixedCapacityVector<E, 4>, amc::vector<E, AM<E>>>::
      build("NestStr_basic", "SmallVector<std::string,2>", {"vector<B>", "SmallVector<3,B>", "Fixed<4>", "vector<M>"});
}
}  // namespace sim
SIM_REGISTER_FAMILY(sim::make())
