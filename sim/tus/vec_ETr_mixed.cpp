#include "vecfam.hpp"
SIM_REGISTER_FAMILY(sim::make_family_mixed<sim::ETr>("ETr_mixed", "ETr"))
