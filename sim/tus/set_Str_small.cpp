#include "setfam.hpp"
#include <string>
SIM_REGISTER_SET_FAMILY(sim::make_set_family_small<std::string>("Str_small", "std::string"))
