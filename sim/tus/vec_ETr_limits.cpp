#include "vecfam.hpp"
SIM_REGISTER_FAMILY(sim::make_family_limits<sim::ETr>("ETr_limits", "ETr"))
