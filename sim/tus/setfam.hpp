// Family definitions of the set engine.
#pragma once
#define AMC_NONSTD_FEATURES 1
#include "../setops.hpp"

namespace sim {
template <class T> using AB = amc::BasicAllocatorWrapper<T, SimBasicAlloc>;
template <class T> using AS = SimStdAlloc<T>;
template <class T> using AR = SimReallocAlloc<T>;
template <class T> using AM = amc::allocator<T>;
typedef SimCmpT<0, false> Cmp0;
typedef SimCmpT<1, false> Cmp1;
typedef SimCmpT<0, true> CmpT;
typedef SimCmpSelfT<2> CmpS;  // self-referencing, not trivially relocatable

template <class E>
SetFamily *make_set_family_flat(const char *name, const char *elem) {
  return SetFamilyBuilder<amc::FlatSet<E, Cmp0, AB<E>, amc::vector<E, AB<E>>>, amc::FlatSet<E, Cmp1, AB<E>, amc::vector<E, AB<E>>>,
                          amc::FlatSet<E, CmpT, AS<E>, amc::SmallVector<E, 4, AS<E>>>,
                          amc::FlatSet<E, Cmp0, amc::vec::EmptyAlloc, amc::FixedCapacityVector<E, 12>>,
                          amc::FlatSet<E, Cmp0, AS<E>, std::vector<E, AS<E>>>, amc::FlatSet<E, CmpT, AM<E>>,
                          amc::FlatSet<E, CmpS, AB<E>, amc::vector<E, AB<E>>>>::
      build(name, elem, {"FlatSet<vector<B>>", "FlatSet<vector<B>,cmp1>", "FlatSet<SmallVector<4,S>,transparent>", "FlatSet<Fixed<12>>", "FlatSet<std::vector<S>>",
                         "FlatSet<vector<M>,transparent>", "FlatSet<vector<B>,selfcmp>"});
}
template <class E>
SetFamily *make_set_family_small(const char *name, const char *elem) {
  return SetFamilyBuilder<amc::SmallSet<E, 3, Cmp0, AS<E>>, amc::SmallSet<E, 1, Cmp0, AS<E>>, amc::SmallSet<E, 5, Cmp1, AS<E>>,
                          amc::SmallSet<E, 3, CmpT, AB<E>, amc::FlatSet<E, CmpT, AB<E>>>, amc::SmallSet<E, 8, CmpT, AB<E>, amc::FlatSet<E, CmpT, AB<E>>>,
                          amc::SmallSet<E, 2, Cmp0, AM<E>>, amc::SmallSet<E, 2, CmpS, AB<E>, amc::FlatSet<E, CmpS, AB<E>>>>::
      build(name, elem, {"SmallSet<3,std::set<S>>", "SmallSet<1,std::set<S>>", "SmallSet<5,std::set<S>,cmp1>", "SmallSet<3,FlatSet<B>,transparent>",
                         "SmallSet<8,FlatSet<B>,transparent>", "SmallSet<2,std::set<M>>", "SmallSet<2,FlatSet<B>,selfcmp>"});
}
}  // namespace sim

#define SIM_REGISTER_SET_FAMILY(expr)                               \
  namespace {                                                       \
  struct Reg {                                                      \
    Reg() { sim::register_set_family(expr); }                       \
  } g_reg;                                                          \
  }
