#include "setfam.hpp"
SIM_REGISTER_SET_FAMILY(sim::make_set_family_small<sim::ETr>("ETr_small", "ETr"))
