#include "vecfam.hpp"
#include <string>
namespace sim {
static VecFamily *make() {
  typedef std::string E;
  return FamilyBuilder<amc::vector<E, AB<E>>, amc::SmallVector<E, 3, AB<E>>, amc::FixedCapacityVector<E, 5>, amc::SmallVector<E, 2, AS<E>, uint8_t>, amc::vector<E, AS<E>>>::
      build("Str_basic", "std::string", {"vector<B>", "SmallVector<3,B>", "Fixed<5>", "SmallVector<2,S,u8>", "vector<S>"});
}
}  // namespace sim
SIM_REGISTER_FAMILY(sim::make())
