#include "vecfam.hpp"
SIM_REGISTER_FAMILY(sim::make_family_basic<sim::ENonTr<false>>("ENonTrX_basic", "ENonTrX"))
