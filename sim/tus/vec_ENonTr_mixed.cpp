#include "vecfam.hpp"
SIM_REGISTER_FAMILY(sim::make_family_mixed<sim::ENonTr<true>>("ENonTr_mixed", "ENonTr"))
