#include "vecfam.hpp"
SIM_REGISTER_FAMILY(sim::make_family_limits<sim::ETriv>("ETriv_limits", "ETriv"))
