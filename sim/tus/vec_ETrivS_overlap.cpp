#include "vecfam.hpp"
namespace sim {
static VecFamily *make() {
  typedef ETrivS E;
  return FamilyBuilder<amc::SmallVector<E, 1, AB<E>>, amc::SmallVector<E, 2, AB<E>>, amc::SmallVector<E, 3, AB<E>>, amc::vector<E, AB<E>>,
                       amc::FixedCapacityVector<E, 5>, amc::SmallVector<E, 2, AM<E>, uint8_t>>::
      build("ETrivS_overlap", "ETrivS", {"SmallVector<1,B>", "SmallVector<2,B>", "SmallVector<3,B>", "vector<B>", "Fixed<5>", "SmallVector<2,M,u8>"});
}
}  // namespace sim
SIM_REGISTER_FAMILY(sim::make())
