#include "vecfam.hpp"
namespace sim {
static VecFamily *make() {
  typedef EAl16 E;  // over-aligned (alignas(16)) element: inline storage and buffers must respect its alignment
  return FamilyBuilder<amc::SmallVector<E, 2, AB<E>>, amc::SmallVector<E, 5, AS<E>, uint8_t>, amc::FixedCapacityVector<E, 3>, amc::vector<E, AM<E>>, amc::vector<E, AR<E>>>::
      build("Align_basic", "EAl16", {"SmallVector<2,B>", "SmallVector<5,S,u8>", "Fixed<3>", "vector<M>", "vector<R>"});
}
}  // namespace sim
SIM_REGISTER_FAMILY(sim::make())
