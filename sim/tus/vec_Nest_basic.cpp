#include "vecfam.hpp"
namespace sim {
static VecFamily *make() {
  typedef amc::SmallVector<ENonTr<true>, 2, AS<ENonTr<true>>> E;  // a container of the library as element (inline, non-relocatable content)
  return FamilyBuilder<amc::vector<E, AB<E>>, amc::SmallVector<E, 2, AB<E>>, amc::FixedCapacityVector<E, 5>, amc::vector<E, AS<E>>>::
      build("Nest_basic", "SmallVector<ENonTr,2>", {"vector<B>", "SmallVector<2,B>", "Fixed<5>", "vector<S>"});
}
}  // namespace sim
SIM_REGISTER_FAMILY(sim::make())
