// C15: amc:: memory algorithms against a small reference implementation, with every throw index enumerated.
// Built as C++11, 14, 17 and 20 (different implementations are selected by #ifdef in memory.hpp).  C++11-compatible.
//
//   memalgo run <seedBase> <start> <count> [maxSeconds] [stride]
//   memalgo case <algo> <len> <iter> <val> <throwIdx>        replay one case (throwIdx -1 = no fault)
//   memalgo list
#include <amc/memory.hpp>
#include <signal.h>
#include <unistd.h>

#include <chrono>
#include <cstdio>
#include <cstdlib>
#include <cstring>
#include <initializer_list>
#include <iterator>
#include <new>
#include <string>
#include <vector>

#include "elems.hpp"
#include "simheap.hpp"

#ifndef SIM_STD_NAME
#define SIM_STD_NAME "c++??"
#endif

using namespace sim;

namespace sim {
ElemLedger g_elems;
}

// ------------------------------------------------------------------------------------------------ extra element types
/// move constructor may throw (used only here: with throwing moves even std::vector cannot keep "not moved-from")
struct EThrowMove {
  int key_, pay_;
  const EThrowMove *self_;
  static const bool kHooks = true;
  int k() const { return key_; }
  int p() const { return pay_; }
  void reg() {
    HScope hs;
    uintptr_t a = (uintptr_t)this;
    if (g_elems.byAddr.count(a)) elem_viol("construct", "an object is constructed over a live object");
    g_elems.byAddr[a] = ElemLedger::Rec{ES_ALIVE, G.armed};
    g_elems.born(G.armed);
    self_ = this;
  }
  bool ok(const char *what) const {
    if (self_ != this || !g_elems.byAddr.count((uintptr_t)this)) { elem_viol(what, "object is not alive here"); return false; }
    return true;
  }
  EThrowMove() : key_(0), pay_(0) { G.elem_throw_point(EV_DEFAULT_CTOR); G.elem_event(EV_DEFAULT_CTOR, this); reg(); }
  EThrowMove(int k, int p) : key_(k), pay_(p) { G.elem_throw_point(EV_VALUE_CTOR); G.elem_event(EV_VALUE_CTOR, this); reg(); }
  EThrowMove(const EThrowMove &o) : key_(o.key_), pay_(o.pay_) { o.ok("copy-construct from"); G.elem_throw_point(EV_COPY_CTOR); G.elem_event(EV_COPY_CTOR, this, &o); reg(); }
  EThrowMove(EThrowMove &&o) : key_(o.key_), pay_(o.pay_) {
    o.ok("move-construct from");
    G.elem_throw_point(EV_MOVE_CTOR);  // may throw *before* the source is modified
    G.elem_event(EV_MOVE_CTOR, this, &o);
    g_elems.byAddr[(uintptr_t)&o].state = ES_MOVED;
    o.key_ = kPoisonKey;
    reg();
  }
  EThrowMove &operator=(const EThrowMove &o) { ok("copy-assign to"); o.ok("copy-assign from"); G.elem_throw_point(EV_COPY_ASSIGN); key_ = o.key_; pay_ = o.pay_; g_elems.byAddr[(uintptr_t)this].state = ES_ALIVE; return *this; }
  ~EThrowMove() {
    HScope hs;
    G.elem_event(EV_DTOR, this);
    if (ok("destroy")) {
      std::map<uintptr_t, ElemLedger::Rec>::iterator it = g_elems.byAddr.find((uintptr_t)this);
      g_elems.died(it->second.armedBorn);
      g_elems.byAddr.erase(it);
      self_ = nullptr;
    }
  }
  static int state_of(const EThrowMove &e) {
    if (e.self_ != &e) return ES_GARBAGE;
    std::map<uintptr_t, ElemLedger::Rec>::iterator it = g_elems.byAddr.find((uintptr_t)&e);
    return it == g_elems.byAddr.end() ? (int)ES_DEAD : (int)it->second.state;
  }
};

/// trivial default constructor and destructor, but a user-provided copy assignment: the standard algorithms only ever *construct*
/// objects of it (value-initialisation zeroes it); an implementation that "fills" raw memory by assignment calls operator= on
/// storage that holds no object.
static unsigned long g_assignCalls = 0;
struct EAssignHook {
  int key_, pay_;
  EAssignHook() = default;
  EAssignHook(int k, int p) : key_(k), pay_(p) {}
  EAssignHook(const EAssignHook &) = default;
  EAssignHook &operator=(const EAssignHook &o) { ++g_assignCalls; key_ = o.key_; pay_ = o.pay_; return *this; }
  int k() const { return key_; }
  int p() const { return pay_; }
  static const bool kHooks = false;
  static int state_of(const EAssignHook &) { return ES_ALIVE; }
};

/// trivial copy constructor and destructor, user-provided move constructor: copying it bit by bit where a *move* is required skips
/// the move constructor (the source keeps its value).  Not trivially copyable, not declared trivially relocatable.
static unsigned long g_userMoves = 0;  // calls of EUserMove's move constructor (a side effect the optimiser cannot remove, unlike stores into an
                                       // object whose lifetime ends right afterwards)
struct EUserMove {
  int key_, pay_;
  EUserMove() = default;
  EUserMove(int k, int p) : key_(k), pay_(p) {}
  EUserMove(const EUserMove &) = default;
  EUserMove(EUserMove &&o) noexcept : key_(o.key_), pay_(o.pay_) { o.key_ = kPoisonKey; o.pay_ = kPoisonKey; ++g_userMoves; }
  EUserMove &operator=(const EUserMove &) = default;
  int k() const { return key_; }
  int p() const { return pay_; }
  static const bool kHooks = false;
  static int state_of(const EUserMove &e) { return e.key_ == kPoisonKey ? ES_MOVED : ES_ALIVE; }
};
/// has both a (int, int) constructor and an initializer_list<int> constructor: construct_at(p, a, b) must use the former, as
/// std::construct_at does (`T(a, b)`, not `T{a, b}`)
struct EIlist {
  int key_, pay_;
  EIlist() : key_(0), pay_(0) {}
  EIlist(int k, int p) : key_(k), pay_(p) {}
  EIlist(std::initializer_list<int>) : key_(-99), pay_(-99) {}
  int k() const { return key_; }
  int p() const { return pay_; }
  static const bool kHooks = false;
  static int state_of(const EIlist &) { return ES_ALIVE; }
};
/// source / destination of different types: the destination is constructed from the source by a converting constructor that can throw
struct ESrcH {
  int key_, pay_;
};
struct EDstH : ENonTr<true> {
  EDstH(const ESrcH &s) : ENonTr<true>(s.key_, s.pay_) {}
};

// ------------------------------------------------------------------------------------------------ iterator wrappers
template <class T, class Cat>
struct WrapIt {
  typedef Cat iterator_category;
  typedef T value_type;
  typedef std::ptrdiff_t difference_type;
  typedef T *pointer;
  typedef T &reference;
  T *p;
  WrapIt() : p(nullptr) {}
  explicit WrapIt(T *q) : p(q) {}
  reference operator*() const { return *p; }
  pointer operator->() const { return p; }
  WrapIt &operator++() { ++p; return *this; }
  WrapIt operator++(int) { WrapIt t = *this; ++p; return t; }
  WrapIt &operator--() { --p; return *this; }
  WrapIt operator--(int) { WrapIt t = *this; --p; return t; }
  WrapIt &operator+=(difference_type n) { p += n; return *this; }
  WrapIt &operator-=(difference_type n) { p -= n; return *this; }
  WrapIt operator+(difference_type n) const { return WrapIt(p + n); }
  WrapIt operator-(difference_type n) const { return WrapIt(p - n); }
  difference_type operator-(const WrapIt &o) const { return p - o.p; }
  reference operator[](difference_type n) const { return p[n]; }
  bool operator==(const WrapIt &o) const { return p == o.p; }
  bool operator!=(const WrapIt &o) const { return p != o.p; }
  bool operator<(const WrapIt &o) const { return p < o.p; }
  bool operator>(const WrapIt &o) const { return p > o.p; }
  bool operator<=(const WrapIt &o) const { return p <= o.p; }
  bool operator>=(const WrapIt &o) const { return p >= o.p; }
};
template <class T>
struct MStream {
  T *data;
  size_t size, cursor;
  unsigned rereads, readsAfterEof;
  std::vector<unsigned char> readCount;
  MStream(T *d, size_t n) : data(d), size(n), cursor(0), rereads(0), readsAfterEof(0), readCount(n, 0) {}
};
template <class T>
struct MInputIt {
  typedef std::input_iterator_tag iterator_category;
  typedef T value_type;
  typedef std::ptrdiff_t difference_type;
  typedef T *pointer;
  typedef T &reference;
  MStream<T> *s;
  MInputIt() : s(nullptr) {}
  explicit MInputIt(MStream<T> *st) : s(st) {}
  bool at_end() const { return !s || s->cursor >= s->size; }
  reference operator*() const {
    if (at_end()) { ++s->readsAfterEof; return s->data[s->size ? s->size - 1 : 0]; }
    if (s->readCount[s->cursor]++) ++s->rereads;
    return s->data[s->cursor];
  }
  pointer operator->() const { return &**this; }
  MInputIt &operator++() { if (s && s->cursor < s->size) ++s->cursor; return *this; }
  MInputIt operator++(int) { MInputIt t = *this; ++*this; return t; }
  bool operator==(const MInputIt &o) const { return at_end() == o.at_end(); }
  bool operator!=(const MInputIt &o) const { return !(*this == o); }
};
/// random-access but NOT contiguous: visits every second element of an array (a whole-range memcpy from / to it is wrong)
template <class T>
struct StrideIt {
  typedef std::random_access_iterator_tag iterator_category;
  typedef T value_type;
  typedef std::ptrdiff_t difference_type;
  typedef T *pointer;
  typedef T &reference;
  T *p;
  StrideIt() : p(nullptr) {}
  explicit StrideIt(T *q) : p(q) {}
  reference operator*() const { return *p; }
  pointer operator->() const { return p; }
  StrideIt &operator++() { p += 2; return *this; }
  StrideIt operator++(int) { StrideIt t = *this; p += 2; return t; }
  StrideIt &operator--() { p -= 2; return *this; }
  StrideIt operator--(int) { StrideIt t = *this; p -= 2; return t; }
  StrideIt &operator+=(difference_type n) { p += 2 * n; return *this; }
  StrideIt &operator-=(difference_type n) { p -= 2 * n; return *this; }
  StrideIt operator+(difference_type n) const { return StrideIt(p + 2 * n); }
  StrideIt operator-(difference_type n) const { return StrideIt(p - 2 * n); }
  difference_type operator-(const StrideIt &o) const { return (p - o.p) / 2; }
  reference operator[](difference_type n) const { return p[2 * n]; }
  bool operator==(const StrideIt &o) const { return p == o.p; }
  bool operator!=(const StrideIt &o) const { return p != o.p; }
  bool operator<(const StrideIt &o) const { return p < o.p; }
  bool operator>(const StrideIt &o) const { return p > o.p; }
  bool operator<=(const StrideIt &o) const { return p <= o.p; }
  bool operator>=(const StrideIt &o) const { return p >= o.p; }
};
template <class It> bool same_pos(const It &a, const It &b) { return a == b; }
template <class T> bool same_pos(const MInputIt<T> &a, const MInputIt<T> &b) { return (a.s ? a.s->cursor : 0) == (b.s ? b.s->cursor : 0); }
template <class T> T *base_of(T *p) { return p; }
template <class T> T *base_of(const T *p) { return const_cast<T *>(p); }
template <class T> T *base_of(MInputIt<T> it) { return it.s ? it.s->data + it.s->cursor : nullptr; }
template <class T, class C> T *base_of(WrapIt<T, C> it) { return it.p; }
template <class T> T *base_of(std::move_iterator<T *> it) { return it.base(); }
template <class T> T *base_of(StrideIt<T> it) { return it.p; }
template <class T> T *base_of(std::reverse_iterator<T *> it) { return it.base(); }

enum Algo {
  A_CONSTRUCT_AT = 0, A_CONSTRUCT_AT_COPY, A_CONSTRUCT_AT_MOVE, A_DESTROY_AT, A_DESTROY, A_DESTROY_N, A_UCOPY, A_UCOPY_N, A_UMOVE, A_UMOVE_N, A_UDEFAULT,
  A_UDEFAULT_N, A_UVALUE, A_UVALUE_N, A_URELOC, A_URELOC_N, A_RELOCATE_AT, A_CONSTRUCT_AT_ARRAY, A_DESTROY_AT_ARRAY, A_NALGO
};
static const char *kAlgoNames[] = {"construct_at", "construct_at_copy", "construct_at_move", "destroy_at", "destroy", "destroy_n", "uninitialized_copy",
                                   "uninitialized_copy_n", "uninitialized_move", "uninitialized_move_n", "uninitialized_default_construct",
                                   "uninitialized_default_construct_n", "uninitialized_value_construct", "uninitialized_value_construct_n",
                                   "uninitialized_relocate", "uninitialized_relocate_n", "relocate_at", "construct_at_array", "destroy_at_array"};
enum IterKind { I_PTR = 0, I_RA, I_BIDI, I_FWD, I_MOVE, I_INPUT, I_CPTR, I_REV, I_STRIDE, I_PTR_DREV, I_RA_DFWD, I_STRIDE_DRA, I_NITER };
static const char *kIterNames[] = {"pointer", "random_access", "bidirectional", "forward", "move_iterator", "single_pass_input", "const_pointer",
                                   "reverse_pointer", "strided_random_access", "pointer_to_reverse_dest", "random_access_to_forward_dest",
                                   "strided_to_random_access_dest"};
enum ValKind { VAL_TRIV = 0, VAL_TR, VAL_NONTR, VAL_THROWMOVE, VAL_AGG, VAL_ASSIGNHOOK, VAL_USERMOVE, VAL_HETERO, VAL_ILIST, VAL_BYTE2BOOL, VAL_NVAL };
static const char *kValNames[] = {"trivial", "ETr", "ENonTr", "EThrowMove", "aggregate", "trivial_ctor_user_assign", "trivial_copy_user_move",
                                  "converting_src_to_dst", "initializer_list_ctor", "bytes_to_bool"};

struct Case {
  int algo, len, iter, val, throwIdx;
};

static std::string g_fail;
static void fail(const std::string &s) { if (g_fail.empty()) g_fail = s; }
static volatile int g_inCase = 0;
static Case g_cur;

template <class T> struct IsAggVal { static const bool value = false; };
template <> struct IsAggVal<EAgg> { static const bool value = true; };
template <class T> struct TracksMove { static const bool value = false; };
template <> struct TracksMove<EUserMove> { static const bool value = true; };
template <class T> struct IsTrivVal { static const bool value = false; };
template <> struct IsTrivVal<ETriv> { static const bool value = true; };
template <> struct IsTrivVal<EAssignHook> { static const bool value = true; };  // as far as construction goes

template <class T>
struct Runner {
  // sources and destination live in SimHeap blocks (red zones; poisoned under ASan)
  T *src, *dst;
  int n;
  std::vector<Val> srcVals;

  int extra;  // source elements beyond the n the algorithm is asked to process (a stream does not end where the caller stops reading)
  int sStep;  // 1, or 2 for the strided (non-contiguous) source: the odd slots hold bystander objects
  bool sRev, dRev;  // source / destination traversed through a reverse_iterator
  int sidx(int i) const { return sRev ? n - 1 - i : i * sStep; }
  int didx(int i) const { return dRev ? n - 1 - i : i; }
  int src_count() const { return sStep == 2 ? 2 * n : n + extra; }
  bool mapped(int j) const { return sStep == 2 ? (j % 2 == 0 && j / 2 < n) : j < n; }
  void setup(int len, int extraTail = 0, int step = 1, bool srcRev = false, bool dstRev = false) {
    n = len; extra = step == 2 ? 0 : extraTail; sStep = step; sRev = srcRev; dRev = dstRev;
    int cnt = src_count();
    src = static_cast<T *>(g_heap.allocate((size_t)(cnt ? cnt : 1) * sizeof(T), 0, 0, DOM_STD, false));
    dst = static_cast<T *>(g_heap.allocate((size_t)(len ? len : 1) * sizeof(T), 0, 0, DOM_STD, false));
    srcVals.clear();
    for (int i = 0; i < cnt; ++i) { ::new ((void *)(src + i)) T(10 + i, 100 + i); srcVals.push_back(Val{10 + i, 100 + i}); }
  }
  void release_blocks() {
    int cnt = src_count();
    g_heap.deallocate(src, (size_t)(cnt ? cnt : 1) * sizeof(T), 0, 0, DOM_STD, true);
    g_heap.deallocate(dst, (size_t)(n ? n : 1) * sizeof(T), 0, 0, DOM_STD, true);
  }
  static bool alive(const T &e) { int s = T::state_of(e); return s == ES_ALIVE || s == ES_MOVED; }
  // destroy whatever the harness still owns
  void destroy_sources(int from = 0) {
    for (int i = from; i < src_count(); ++i) if (alive(src[i])) src[i].~T();
  }
  void destroy_bystanders() {
    for (int j = 0; j < src_count(); ++j) if (!mapped(j) && alive(src[j])) src[j].~T();
  }
  void check_dst_values(int count, const char *what) {
    for (int i = 0; i < count; ++i) {
      const T &d = dst[didx(i)];
      if (T::state_of(d) != ES_ALIVE) { fail(std::string(what) + ": destination object is not alive"); return; }
      if (d.k() != srcVals[sidx(i)].key || d.p() != srcVals[sidx(i)].pay) { fail(std::string(what) + ": destination object has a wrong value"); return; }
    }
  }
  void destroy_dst(int count) { for (int i = 0; i < count; ++i) if (alive(dst[i])) dst[i].~T(); }

  // relocation is not instantiated for move_iterator sources (it would destroy through an rvalue)
  template <class It, class D>
  struct RelocCall {
    static D reloc(It f, It l, D d) { return amc::uninitialized_relocate(f, l, d); }
    static std::pair<It, D> reloc_n(It f, int n, D d) { return amc::uninitialized_relocate_n(f, n, d); }
  };
  template <class U, class D>
  struct RelocCall<MInputIt<U>, D> {
    typedef MInputIt<U> It;
    static D reloc(It, It, D d) { return d; }
    static std::pair<It, D> reloc_n(It f, int, D d) { return std::pair<It, D>(f, d); }
  };
  template <class U, class D>
  struct RelocCall<std::move_iterator<U>, D> {
    typedef std::move_iterator<U> It;
    static D reloc(It, It, D d) { return d; }
    static std::pair<It, D> reloc_n(It f, int, D d) { return std::pair<It, D>(f, d); }
  };

  template <class It>
  static It make_last(It first, int n) { std::advance(first, n); return first; }
  static MInputIt<T> make_last(MInputIt<T>, int) { return MInputIt<T>(); }

  template <class It>
  void run_range_algo(const Case &c, It first) { run_range_algo2(c, first, dst); }
  template <class It, class D>
  void run_range_algo2(const Case &c, It first, D dfirst) {
    It last = make_last(first, n);
    D dlast = dfirst;
    std::advance(dlast, n);
    bool threw = false;
    D ret = dfirst;
    It retIt = first;
    bool hasRetIt = false;
    G.faultKind = c.throwIdx >= 0 ? F_ELEM : F_NONE; G.faultCountdown = c.throwIdx; G.faultFired = false;
    long live0 = g_elems.liveArmed;
    unsigned long userMoves0 = g_userMoves;
    try {
      Arm a;
      switch (c.algo) {
        case A_UCOPY: ret = amc::uninitialized_copy(first, last, dfirst); break;
        case A_UCOPY_N: ret = amc::uninitialized_copy_n(first, n, dfirst); break;
        case A_UMOVE: ret = amc::uninitialized_move(first, last, dfirst); break;
        case A_UMOVE_N: { std::pair<It, D> pr = amc::uninitialized_move_n(first, n, dfirst); retIt = pr.first; hasRetIt = true; ret = pr.second; } break;
        case A_URELOC: ret = RelocCall<It, D>::reloc(first, last, dfirst); break;
        case A_URELOC_N: { std::pair<It, D> pr = RelocCall<It, D>::reloc_n(first, n, dfirst); retIt = pr.first; hasRetIt = true; ret = pr.second; } break;
        default: break;
      }
    } catch (SimFault &) { threw = true; }
    G.armed = false; G.faultKind = F_NONE;
    bool reloc = c.algo == A_URELOC || c.algo == A_URELOC_N;
    bool moves = reloc || c.algo == A_UMOVE || c.algo == A_UMOVE_N || c.iter == I_MOVE;
    if (TracksMove<T>::value && !threw && moves && c.iter != I_CPTR && g_userMoves - userMoves0 != (unsigned long)n)
      fail("a type that is neither trivially copyable nor declared trivially relocatable was copied bit by bit instead of moved (move constructor calls != n)");
    for (int j = 0; j < src_count() && g_fail.empty(); ++j)
      if (!mapped(j) && (T::state_of(src[j]) != ES_ALIVE || src[j].k() != srcVals[j].key))
        fail(sStep == 2 ? "non-contiguous source range: an object between the elements of the range was read, moved or modified"
                        : "single-pass input range: elements beyond the n-th were consumed or modified");
    if (!threw) {
      if (c.throwIdx >= 0 && G.faultFired) fail("fault fired but no exception propagated");
      if (!(ret == dlast)) fail("returned destination iterator is not dest + n");
      if (hasRetIt && !same_pos(retIt, last) && c.iter != I_INPUT) fail("returned source iterator is not first + n");
      if (hasRetIt && c.iter == I_INPUT && base_of(retIt) != src + n) fail("returned source iterator is not first + n");
      check_dst_values(n, kAlgoNames[c.algo]);
      long expectCreated = (reloc && amc::is_trivially_relocatable<T>::value) ? 0 : n;  // a byte-wise relocation creates no object
      if (T::kHooks && g_elems.liveArmed - live0 != expectCreated) fail("number of objects created in the destination is not n");
      // source state
      for (int i = 0; i < n && g_fail.empty(); ++i) {
        const T &sv = src[sidx(i)];
        int st = T::state_of(sv);
        if (reloc) {
          if (amc::is_trivially_relocatable<T>::value) { /* bytes copied, source is dead storage: its identity now lives in dst */ }
          else if (T::kHooks && st != ES_DEAD && st != ES_GARBAGE) fail("relocate: source object was not destroyed");
          /* the sources of a relocation are destroyed: their state must not be read; the move constructor calls are counted instead (below) */
        } else if (moves && c.iter == I_CPTR) {
          if (st != ES_ALIVE) fail("move from a const source: the source object changed state");
        } else if (moves) {
          if ((T::kHooks || TracksMove<T>::value) && st != ES_MOVED && !IsTrivVal<T>::value) fail("move: source object is not in a moved-from state (its move constructor did not run)");
        } else if (st != ES_ALIVE) {
          fail("copy: source object changed state");
        } else if (sv.k() != srcVals[sidx(i)].key) fail("copy: source value changed");
      }
      destroy_dst(n);
      if (!reloc) destroy_sources();
      else destroy_bystanders();  // the n relocated objects were destroyed by the algorithm (or, byte-wise, through dst)
    } else {
      // every object the algorithm created is destroyed, the sources stay alive, nothing else is touched
      if (T::kHooks && g_elems.liveArmed != live0) fail("after a throw: objects created by the algorithm are still alive (or too many were destroyed)");
      for (int i = 0; i < n && g_fail.empty(); ++i)
        if (!alive(src[sidx(i)])) fail("after a throw: a source object is no longer alive");
      destroy_sources();
    }
    G.faultFired = threw;
  }

  void run_case(const Case &c) {
    // the counted algorithms on a single-pass stream: the stream continues after the n-th element
    bool counted = c.algo == A_UCOPY_N || c.algo == A_UMOVE_N;
    bool rangeAlgo = c.algo >= A_UCOPY && c.algo <= A_URELOC_N && c.algo != A_UDEFAULT && c.algo != A_UDEFAULT_N && c.algo != A_UVALUE && c.algo != A_UVALUE_N;
    bool strided = rangeAlgo && (c.iter == I_STRIDE || c.iter == I_STRIDE_DRA);
    setup(c.len, (c.iter == I_INPUT && counted) ? 3 : 0, strided ? 2 : 1, rangeAlgo && c.iter == I_REV, rangeAlgo && c.iter == I_PTR_DREV);
    long live0 = g_elems.liveArmed;
    bool threw = false;
    switch (c.algo) {
      case A_CONSTRUCT_AT: case A_CONSTRUCT_AT_COPY: case A_CONSTRUCT_AT_MOVE: {
        T tmp(7, 77);
        G.faultKind = c.throwIdx >= 0 ? F_ELEM : F_NONE; G.faultCountdown = c.throwIdx; G.faultFired = false;
        T *ret = nullptr;
        try {
          Arm a;
          if (c.algo == A_CONSTRUCT_AT) ret = amc::construct_at(dst, 7, 77);
          else if (c.algo == A_CONSTRUCT_AT_COPY) ret = amc::construct_at(dst, static_cast<const T &>(tmp));
          else ret = amc::construct_at(dst, std::move(tmp));
        } catch (SimFault &) { threw = true; }
        G.armed = false; G.faultKind = F_NONE;
        if (!threw) {
          if (ret != dst) fail("construct_at did not return its first argument");
          if (T::state_of(*dst) != ES_ALIVE || dst->k() != 7 || dst->p() != 77) fail("construct_at built a wrong object");
          if (T::kHooks && g_elems.liveArmed - live0 != 1) fail("construct_at: not exactly one object created");
          if (TracksMove<T>::value && c.algo == A_CONSTRUCT_AT_MOVE && T::state_of(tmp) != ES_MOVED) fail("construct_at(p, std::move(x)) did not run the move constructor (x keeps its value)");
          dst->~T();
        } else if (T::kHooks && g_elems.liveArmed != live0) fail("construct_at threw but an object stays alive");
        destroy_sources();
        G.faultFired = threw;
      } break;
      case A_DESTROY_AT: case A_DESTROY: case A_DESTROY_N: {
        T *r = nullptr;
        {
          Arm a;
          if (c.algo == A_DESTROY_AT) { if (n) amc::destroy_at(src); }
          else if (c.algo == A_DESTROY) amc::destroy(src, src + n);
          else r = amc::destroy_n(src, n);
        }
        int destroyed = c.algo == A_DESTROY_AT ? (n ? 1 : 0) : n;
        if (c.algo == A_DESTROY_N && r != src + n) fail("destroy_n did not return first + n");
        for (int i = 0; i < n && g_fail.empty(); ++i) {
          bool dead = !alive(src[i]);
          if (T::kHooks && dead != (i < destroyed)) fail("destroy: wrong set of objects destroyed");
        }
        destroy_sources(destroyed);
        G.faultFired = false;
      } break;
      case A_UDEFAULT: case A_UDEFAULT_N: case A_UVALUE: case A_UVALUE_N: {
        bool value = c.algo == A_UVALUE || c.algo == A_UVALUE_N;
        if (IsTrivVal<T>::value || TracksMove<T>::value) memset((void *)dst, 0x5A, (size_t)(n ? n : 1) * sizeof(T));
        G.faultKind = c.throwIdx >= 0 ? F_ELEM : F_NONE; G.faultCountdown = c.throwIdx; G.faultFired = false;
        T *ret = dst + n;
        unsigned long assign0 = g_assignCalls;
        try {
          Arm a;
          if (c.algo == A_UDEFAULT) amc::uninitialized_default_construct(dst, dst + n);
          else if (c.algo == A_UDEFAULT_N) ret = amc::uninitialized_default_construct_n(dst, n);
          else if (c.algo == A_UVALUE) amc::uninitialized_value_construct(dst, dst + n);
          else ret = amc::uninitialized_value_construct_n(dst, n);
        } catch (SimFault &) { threw = true; }
        G.armed = false; G.faultKind = F_NONE;
        if (g_assignCalls != assign0) fail("default/value construction called the element's assignment operator on raw memory (it must only construct)");
        if (!threw) {
          if (ret != dst + n) fail("returned iterator is not first + n");
          for (int i = 0; i < n && g_fail.empty(); ++i) {
            if (IsTrivVal<T>::value || TracksMove<T>::value) {  // trivial default constructor: only value-initialisation gives a value
              if (value && (dst[i].k() != 0 || dst[i].p() != 0)) fail("value construction of a trivial type did not zero it");
            } else if (IsAggVal<T>::value) {
              if (dst[i].p() != 7) fail("default/value construction did not run the member's default constructor");
              else if (value && dst[i].k() != 0) fail("value construction did not zero-initialise a member without initialiser (it default-initialised instead)");
            } else if (T::state_of(dst[i]) != ES_ALIVE || dst[i].k() != 0) fail("default/value construction built a wrong object");
          }
          if (T::kHooks && g_elems.liveArmed - live0 != n) fail("number of objects created is not n");
          destroy_dst(n);
        } else if (T::kHooks && g_elems.liveArmed != live0) fail("after a throw: objects created by the algorithm are still alive");
        destroy_sources();
        G.faultFired = threw;
      } break;
      case A_RELOCATE_AT: {
        if (!n) { G.faultFired = false; break; }
        G.faultKind = c.throwIdx >= 0 ? F_ELEM : F_NONE; G.faultCountdown = c.throwIdx; G.faultFired = false;
        T *ret = nullptr;
        unsigned long userMovesAt0 = g_userMoves;
        try { Arm a; ret = amc::relocate_at(src, dst); } catch (SimFault &) { threw = true; }
        G.armed = false; G.faultKind = F_NONE;
        if (!threw) {
          if (ret != dst) fail("relocate_at did not return dest");
          check_dst_values(1, "relocate_at");
          if (T::kHooks && !amc::is_trivially_relocatable<T>::value && alive(src[0])) fail("relocate_at: source was not destroyed");
          if (TracksMove<T>::value && g_userMoves - userMovesAt0 != 1) fail("relocate_at of a type that is not trivially relocatable: the source was copied bit by bit instead of moved from");
          destroy_dst(1);
          destroy_sources(1);
        } else {
          if (T::kHooks && g_elems.liveArmed != live0) fail("relocate_at threw but an object stays alive");
          if (!alive(src[0])) fail("relocate_at threw but the source is no longer alive");
          destroy_sources();
        }
        G.faultFired = threw;
      } break;
      case A_UCOPY: case A_UCOPY_N: case A_UMOVE: case A_UMOVE_N: case A_URELOC: case A_URELOC_N:
        switch (c.iter) {
          case I_PTR: run_range_algo(c, src); break;
          case I_RA: run_range_algo(c, WrapIt<T, std::random_access_iterator_tag>(src)); break;
          case I_BIDI: run_range_algo(c, WrapIt<T, std::bidirectional_iterator_tag>(src)); break;
          case I_FWD: run_range_algo(c, WrapIt<T, std::forward_iterator_tag>(src)); break;
          case I_CPTR: run_range_algo(c, static_cast<const T *>(src)); break;  // const source: "move" and "relocate" copy
          case I_REV: run_range_algo(c, std::reverse_iterator<T *>(src + n)); break;   // random access, not contiguous in iteration order
          case I_STRIDE: run_range_algo(c, StrideIt<T>(src)); break;
          case I_PTR_DREV: run_range_algo2(c, src, std::reverse_iterator<T *>(dst + n)); break;
          case I_RA_DFWD: run_range_algo2(c, WrapIt<T, std::random_access_iterator_tag>(src), WrapIt<T, std::forward_iterator_tag>(dst)); break;
          case I_STRIDE_DRA: run_range_algo2(c, StrideIt<T>(src), WrapIt<T, std::random_access_iterator_tag>(dst)); break;
          case I_INPUT: {
            MStream<T> st(src, (size_t)(n + extra));
            run_range_algo(c, MInputIt<T>(&st));

            if (g_fail.empty() && st.rereads) fail("single-pass input range: an element was read twice");
            if (g_fail.empty() && st.readsAfterEof) fail("single-pass input range: read past its end");
            if (g_fail.empty() && !G.faultFired && st.cursor != (size_t)n) fail("single-pass input range: not exactly n elements were consumed");
          } break;
          default: run_range_algo(c, std::make_move_iterator(src)); break;
        }
        break;
      default:
        destroy_sources();
        G.faultFired = false;
        break;
    }
    g_heap.check_canaries();
    release_blocks();
  }
};

// source and destination of different types (ESrcH -> EDstH through a converting constructor that can throw)
template <class It>
static void hetero_algo(const Case &c, It first, ESrcH *src, EDstH *dst, int n) {
  It last = first;
  std::advance(last, n);
  bool threw = false;
  EDstH *ret = dst;
  G.faultKind = c.throwIdx >= 0 ? F_ELEM : F_NONE; G.faultCountdown = c.throwIdx; G.faultFired = false;
  long live0 = g_elems.liveArmed;
  try {
    Arm a;
    switch (c.algo) {
      case A_UCOPY: ret = amc::uninitialized_copy(first, last, dst); break;
      case A_UCOPY_N: ret = amc::uninitialized_copy_n(first, n, dst); break;
      case A_UMOVE: ret = amc::uninitialized_move(first, last, dst); break;
      case A_UMOVE_N: ret = amc::uninitialized_move_n(first, n, dst).second; break;
      case A_URELOC: ret = amc::uninitialized_relocate(first, last, dst); break;
      default: ret = amc::uninitialized_relocate_n(first, n, dst).second; break;
    }
  } catch (SimFault &) { threw = true; }
  G.armed = false; G.faultKind = F_NONE;
  for (int i = 0; i < n && g_fail.empty(); ++i)
    if (src[i].key_ != 10 + i || src[i].pay_ != 100 + i) fail("converting algorithm: a (trivial) source object was modified");
  if (!threw) {
    if (ret != dst + n) fail("returned destination iterator is not dest + n");
    for (int i = 0; i < n && g_fail.empty(); ++i)
      if (EDstH::state_of(dst[i]) != ES_ALIVE || dst[i].k() != 10 + i || dst[i].p() != 100 + i) fail("converting algorithm: destination object is wrong");
    if (g_elems.liveArmed - live0 != n) fail("number of objects created in the destination is not n");
    for (int i = 0; i < n; ++i) if (EDstH::state_of(dst[i]) == ES_ALIVE) dst[i].~EDstH();
  } else if (g_elems.liveArmed != live0) fail("after a throw: objects created by the algorithm are still alive (or too many were destroyed)");
  G.faultFired = threw;
}
static void run_hetero_case(const Case &c) {
  int n = c.len;
  ESrcH *src = static_cast<ESrcH *>(g_heap.allocate((size_t)(n ? n : 1) * sizeof(ESrcH), 0, 0, DOM_STD, false));
  EDstH *dst = static_cast<EDstH *>(g_heap.allocate((size_t)(n ? n : 1) * sizeof(EDstH), 0, 0, DOM_STD, false));
  for (int i = 0; i < n; ++i) { src[i].key_ = 10 + i; src[i].pay_ = 100 + i; }
  switch (c.iter) {
    case I_RA: hetero_algo(c, WrapIt<ESrcH, std::random_access_iterator_tag>(src), src, dst, n); break;
    case I_BIDI: hetero_algo(c, WrapIt<ESrcH, std::bidirectional_iterator_tag>(src), src, dst, n); break;
    case I_FWD: hetero_algo(c, WrapIt<ESrcH, std::forward_iterator_tag>(src), src, dst, n); break;
    case I_CPTR: hetero_algo(c, static_cast<const ESrcH *>(src), src, dst, n); break;
    default: hetero_algo(c, src, src, dst, n); break;
  }
  g_heap.check_canaries();
  g_heap.deallocate(src, (size_t)(n ? n : 1) * sizeof(ESrcH), 0, 0, DOM_STD, true);
  g_heap.deallocate(dst, (size_t)(n ? n : 1) * sizeof(EDstH), 0, 0, DOM_STD, true);
}

// same-size integral types are not the same type: a bool built from a byte converts (0 -> false, anything else -> true), it does
// not keep the byte
static void run_byte2bool_case(const Case &c) {
  int n = c.len;
  unsigned char *src = static_cast<unsigned char *>(g_heap.allocate((size_t)(n ? n : 1), 0, 0, DOM_STD, false));
  bool *dst = static_cast<bool *>(g_heap.allocate((size_t)(n ? n : 1) * sizeof(bool), 0, 0, DOM_STD, false));
  static const unsigned char kBytes[] = {0x02, 0x00, 0x80, 0xff, 0x01, 0x10, 0x00};
  for (int i = 0; i < n; ++i) src[i] = kBytes[i % 7];
  bool *ret = dst;
  {
    Arm a;
    switch (c.algo) {
      case A_UCOPY: ret = amc::uninitialized_copy(src, src + n, dst); break;
      case A_UCOPY_N: ret = amc::uninitialized_copy_n(src, n, dst); break;
      case A_UMOVE: ret = amc::uninitialized_move(src, src + n, dst); break;
      case A_UMOVE_N: ret = amc::uninitialized_move_n(src, n, dst).second; break;
      case A_URELOC: ret = amc::uninitialized_relocate(src, src + n, dst); break;
      default: ret = amc::uninitialized_relocate_n(src, n, dst).second; break;
    }
  }
  G.armed = false;
  if (ret != dst + n) fail("returned destination iterator is not dest + n");
  for (int i = 0; i < n && g_fail.empty(); ++i) {
    unsigned char b;
    memcpy(&b, dst + i, 1);
    if (b != (kBytes[i % 7] ? 1 : 0)) fail("a bool constructed from a byte holds the raw byte instead of the converted value (memcpy between different integral types)");
  }
  G.faultFired = false;
  g_heap.check_canaries();
  g_heap.deallocate(src, (size_t)(n ? n : 1), 0, 0, DOM_STD, true);
  g_heap.deallocate(dst, (size_t)(n ? n : 1) * sizeof(bool), 0, 0, DOM_STD, true);
}

// arrays: pre-C++20 emulations only (std::construct_at / C++17 std::destroy_at do not accept them the same way)
template <class T>
static void run_array_case(const Case &c) {
#if !defined(AMC_CXX20)
  typedef T Arr[3];
  Arr *srcA = static_cast<Arr *>(g_heap.allocate(sizeof(Arr), 0, 0, DOM_STD, false));
  Arr *dstA = static_cast<Arr *>(g_heap.allocate(sizeof(Arr), 0, 0, DOM_STD, false));
  for (int i = 0; i < 3; ++i) ::new ((void *)&(*srcA)[i]) T(20 + i, 200 + i);
  long live0 = g_elems.liveArmed;
  bool threw = false;
  if (c.algo == A_CONSTRUCT_AT_ARRAY) {
    G.faultKind = c.throwIdx >= 0 ? F_ELEM : F_NONE; G.faultCountdown = c.throwIdx; G.faultFired = false;
    try { Arm a; amc::construct_at(dstA, std::move(*srcA)); } catch (SimFault &) { threw = true; }
    G.armed = false; G.faultKind = F_NONE;
    if (!threw) {
      for (int i = 0; i < 3; ++i) if ((*dstA)[i].k() != 20 + i) fail("construct_at(array): wrong element value");
      if (g_elems.liveArmed - live0 != 3) fail("construct_at(array): not exactly 3 objects created");
      for (int i = 0; i < 3; ++i) (*dstA)[i].~T();
    } else if (g_elems.liveArmed != live0) fail("construct_at(array) threw: created elements are still alive, or an element that was never constructed was destroyed");
    for (int i = 0; i < 3; ++i) (*srcA)[i].~T();
  } else {
#if !defined(AMC_CXX17)
    { Arm a; amc::destroy_at(srcA); }
    for (int i = 0; i < 3; ++i) if (T::state_of((*srcA)[i]) == ES_ALIVE) fail("destroy_at(array) did not destroy every element");
#else
    for (int i = 0; i < 3; ++i) (*srcA)[i].~T();
#endif
  }
  G.faultFired = threw;
  g_heap.deallocate(srcA, sizeof(Arr), 0, 0, DOM_STD, true);
  g_heap.deallocate(dstA, sizeof(Arr), 0, 0, DOM_STD, true);
#else
  (void)c;
  G.faultFired = false;
#endif
}

// returns true if the injected fault fired
static bool exec_case(const Case &c) {
  G.reset_run(1);
  g_heap.reset();
  g_elems.reset();
  G.begin_op(0, c.algo, 0, kAlgoNames[c.algo]);
  g_fail.clear();
  g_cur = c; g_inCase = 1;
  if (c.algo == A_CONSTRUCT_AT_ARRAY || c.algo == A_DESTROY_AT_ARRAY) {
    if (c.val == VAL_THROWMOVE) run_array_case<EThrowMove>(c); else run_array_case<ENonTr<true> >(c);
  } else {
    switch (c.val) {
      case VAL_TRIV: { Runner<ETriv> r; r.run_case(c); } break;
      case VAL_TR: { Runner<ETr> r; r.run_case(c); } break;
      case VAL_NONTR: { Runner<ENonTr<true> > r; r.run_case(c); } break;
      case VAL_AGG: { Runner<EAgg> r; r.run_case(c); } break;
      case VAL_ASSIGNHOOK: { Runner<EAssignHook> r; r.run_case(c); } break;
      case VAL_USERMOVE: { Runner<EUserMove> r; r.run_case(c); } break;
      case VAL_HETERO: run_hetero_case(c); break;
      case VAL_ILIST: { Runner<EIlist> r; r.run_case(c); } break;
      case VAL_BYTE2BOOL: run_byte2bool_case(c); break;
      default: { Runner<EThrowMove> r; r.run_case(c); } break;
    }
  }
  bool fired = G.faultFired;
  if (g_fail.empty() && G.viol.set()) g_fail = std::string(vkind_name(G.viol.kind)) + ": " + G.viol.what;
  if (g_fail.empty() && (g_elems.liveArmed != 0 || g_elems.liveHarness != 0)) g_fail = "objects alive after the case";
  if (g_fail.empty()) g_heap.check_no_leak("after the case");
  if (g_fail.empty() && G.viol.set()) g_fail = G.viol.what;
  g_inCase = 0;
  return fired;
}

static void crash_line(const char *cls, int sig) {
  char b[256];
  int n = snprintf(b, sizeof b, "\nCRASH class=%s signal=%d std=%s case=%s %d %s %s %d\n", cls, sig, SIM_STD_NAME, kAlgoNames[g_cur.algo], g_cur.len, kIterNames[g_cur.iter],
                   kValNames[g_cur.val], g_cur.throwIdx);
  if (n > 0) { ssize_t r = write(1, b, (size_t)n); (void)r; }
}
static void on_signal(int sig) {
  if (sig == SIGALRM) { crash_line("HANG", sig); _exit(78); }
  crash_line("SIGNAL", sig);
  _exit(76);
}
static void on_terminate() { crash_line("TERMINATE", 0); _exit(79); }
#ifdef SIM_SANITIZE
extern "C" void __sanitizer_set_death_callback(void (*)(void));
static void on_death() { crash_line("SANITIZER", 0); }
#endif
extern "C" __attribute__((used)) const char *__asan_default_options() { return "exitcode=77:detect_leaks=0:abort_on_error=0:quarantine_size_mb=16"; }
extern "C" __attribute__((used)) const char *__ubsan_default_options() { return "halt_on_error=1:exitcode=77"; }

static bool applicable(const Case &c) {
  bool range = c.algo >= A_UCOPY && c.algo <= A_UMOVE_N;
  bool reloc = c.algo == A_URELOC || c.algo == A_URELOC_N;
  if (!range && !reloc && c.iter != I_PTR) return false;
  if (reloc && (c.iter == I_MOVE || c.iter == I_INPUT)) return false;  // relocation needs a multi-pass, lvalue source
  if ((c.algo == A_CONSTRUCT_AT_ARRAY || c.algo == A_DESTROY_AT_ARRAY) && c.val != VAL_NONTR && c.val != VAL_THROWMOVE) return false;
  if ((c.val == VAL_HETERO || c.val == VAL_BYTE2BOOL) && !range && !reloc) return false;
  if (c.val == VAL_BYTE2BOOL && c.iter != I_PTR) return false;
  return true;
}

static int enumerate_case(Case c, unsigned long &execs, unsigned long &fired) {
  // fault-free execution, then every throw index until the fault no longer fires
  c.throwIdx = -1;
  alarm(10);
  exec_case(c);
  ++execs;
  if (!g_fail.empty()) return -1 - 1000;  // encoded: failure without fault
  for (int k = 0; k < 64; ++k) {
    c.throwIdx = k;
    alarm(10);
    bool f = exec_case(c);
    ++execs;
    if (!g_fail.empty()) return k;
    if (!f) break;
    ++fired;
  }
  return -1;
}

int main(int argc, char **argv) {
  setvbuf(stdout, nullptr, _IOLBF, 0);
  std::set_terminate(on_terminate);
  signal(SIGALRM, on_signal); signal(SIGABRT, on_signal);
#ifndef SIM_ASAN
  signal(SIGSEGV, on_signal); signal(SIGBUS, on_signal); signal(SIGFPE, on_signal); signal(SIGILL, on_signal);
#endif
#ifdef SIM_SANITIZE
  __sanitizer_set_death_callback(on_death);
#endif
  if (argc < 2) return 2;
  std::string cmd = argv[1];
  if (cmd == "list") {
    printf("std=%s algos=%d iters=%d vals=%d\n", SIM_STD_NAME, A_NALGO, I_NITER, VAL_NVAL);
    return 0;
  }
  if (cmd == "case" && argc >= 7) {
    Case c;
    c.algo = -1;
    for (int a = 0; a < A_NALGO; ++a) if (!strcmp(argv[2], kAlgoNames[a])) c.algo = a;
    c.len = atoi(argv[3]);
    c.iter = 0; for (int i = 0; i < I_NITER; ++i) if (!strcmp(argv[4], kIterNames[i])) c.iter = i;
    c.val = 0; for (int v = 0; v < VAL_NVAL; ++v) if (!strcmp(argv[5], kValNames[v])) c.val = v;
    c.throwIdx = atoi(argv[6]);
    if (c.algo < 0) return 2;
    alarm(10);
    bool f = exec_case(c);
    printf("RESULT std=%s case=%s %d %s %s %d fired=%d %s%s\n", SIM_STD_NAME, kAlgoNames[c.algo], c.len, kIterNames[c.iter], kValNames[c.val], c.throwIdx, (int)f,
           g_fail.empty() ? "ok" : "FAIL ", g_fail.c_str());
    return g_fail.empty() ? 0 : 1;
  }
  if (cmd == "run" && argc >= 5) {
    uint64_t base = strtoull(argv[2], nullptr, 10), start = strtoull(argv[3], nullptr, 10), count = strtoull(argv[4], nullptr, 10);
    double maxSecs = argc > 5 ? atof(argv[5]) : 1e9;
    unsigned stride = argc > 6 ? (unsigned)atoi(argv[6]) : 1;
    std::chrono::steady_clock::time_point t0 = std::chrono::steady_clock::now();
    unsigned long cases = 0, execs = 0, fired = 0, nviol = 0, skipped = 0;
    std::vector<unsigned char> seen((size_t)A_NALGO * 7 * I_NITER * VAL_NVAL, 0);
    unsigned long distinct = 0;
    for (uint64_t k = 0; k < count; ++k) {
      uint64_t i = start + k * stride;
      Rng r(mix64(base, i));
      Case c;
      c.algo = (int)r.below(A_NALGO); c.len = (int)r.below(7); c.iter = (int)r.below(I_NITER); c.val = (int)r.below(VAL_NVAL); c.throwIdx = -1;
      {  // steer inapplicable draws to an applicable neighbour instead of skipping them
        bool range = c.algo >= A_UCOPY && c.algo <= A_UMOVE_N, reloc = c.algo == A_URELOC || c.algo == A_URELOC_N;
        if ((c.val == VAL_HETERO || c.val == VAL_BYTE2BOOL) && !range && !reloc) c.algo = A_UCOPY + (int)r.below(4);
        if (c.val == VAL_BYTE2BOOL) c.iter = I_PTR;
        range = c.algo >= A_UCOPY && c.algo <= A_UMOVE_N; reloc = c.algo == A_URELOC || c.algo == A_URELOC_N;
        if (!range && !reloc) c.iter = I_PTR;
        else if (reloc && (c.iter == I_MOVE || c.iter == I_INPUT)) c.iter = c.iter == I_MOVE ? I_REV : I_STRIDE;
      }
      if (!applicable(c)) { ++skipped; continue; }
      ++cases;
      size_t cell = (((size_t)c.algo * 7 + c.len) * I_NITER + c.iter) * VAL_NVAL + c.val;
      if (!seen[cell]) { seen[cell] = 1; ++distinct; }
      int bad = enumerate_case(c, execs, fired);
      if (bad != -1) {
        ++nviol;
        printf("V std=%s case=%s %d %s %s %d what=%s\n", SIM_STD_NAME, kAlgoNames[c.algo], c.len, kIterNames[c.iter], kValNames[c.val], bad <= -1000 ? -1 : bad, g_fail.c_str());
      }
      if ((k & 63) == 0) {
        double secs = std::chrono::duration<double>(std::chrono::steady_clock::now() - t0).count();
        if (secs > maxSecs) break;
      }
    }
    alarm(0);
    double secs = std::chrono::duration<double>(std::chrono::steady_clock::now() - t0).count();
    printf("STATS {\"std\":\"%s\",\"cases\":%lu,\"executions\":%lu,\"faults_fired\":%lu,\"distinct_cells\":%lu,\"skipped\":%lu,\"secs\":%.3f}\n", SIM_STD_NAME, cases, execs,
           fired, distinct, skipped, secs);
    printf("DONE runs=%lu violations=%lu\n", cases, nviol);
    return nviol ? 1 : 0;
  }
  return 2;
}
