#include "engine.hpp"
namespace sim { Engine *set_engine() { return nullptr; } }
