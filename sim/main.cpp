// Worker binary of the simulator.  Commands:
//   list                                               families / profiles (JSON)
//   run  <engine> <family> <profile> <seedBase> <start> <count> [maxSeconds]
//   enum <engine> <family> <seedBase> <start> <count> [maxSeconds]        C09 mode A (every fault index of the last op)
//   plan <engine> <family> <profile> <runSeed>          print the plan of one seed
//   exec <planfile> [-t]                                run a plan file (replay); -t prints the transcript
//   shrink <planfile> <prop|any> <outfile>              minimise a failing plan (ddmin + argument simplification)
//   sig  <planfile>                                     signature of a (minimal) failing plan
// Exit codes: 0 clean, 1 violation found, 2 usage / harness error, 77 sanitizer, 78 hang, 79 terminate.
#include <signal.h>
#include <sys/wait.h>
#include <unistd.h>

#include <chrono>
#include <cstdio>
#include <cstdlib>
#include <cstring>
#include <exception>
#include <fstream>
#include <new>
#include <sstream>

#include "engine.hpp"
#include "simheap.hpp"

using namespace sim;

// ------------------------------------------------------------------------------------------------ global operator new (C05 probe)
extern "C" void *__real_malloc(size_t);
extern "C" void __real_free(void *);
void *operator new(size_t n) {
  if (G.armed && G.harnessDepth == 0) ++G.opGlobalNew;
  void *p = __real_malloc(n ? n : 1);
  if (!p) throw std::bad_alloc();
  return p;
}
void *operator new[](size_t n) { return operator new(n); }
void *operator new(size_t n, const std::nothrow_t &) noexcept {
  if (G.armed && G.harnessDepth == 0) ++G.opGlobalNew;
  return __real_malloc(n ? n : 1);
}
void *operator new[](size_t n, const std::nothrow_t &t) noexcept { return operator new(n, t); }
void operator delete(void *p) noexcept { __real_free(p); }
void operator delete[](void *p) noexcept { __real_free(p); }
void operator delete(void *p, size_t) noexcept { __real_free(p); }
void operator delete[](void *p, size_t) noexcept { __real_free(p); }

// ------------------------------------------------------------------------------------------------ crash reporting
static int g_crashFd = 1;
static void crash_line(const char *cls, int sig) {
  char b[512];
  int n = snprintf(b, sizeof b, "\nCRASH class=%s signal=%d seed=%llu run=%d op=%d opname=%s props=%s prior=%s fault=%d:%d\n", cls, sig,
                   (unsigned long long)g_crash.seed, g_crash.runIndex, G.opIndex, G.opName ? G.opName : "?",
                   props_str(G.baseProps | G.ctxProps | P(2)).c_str(), G.viol.set() ? vkind_name(G.viol.kind) : "-", g_crash.faultKind, g_crash.faultK);
  if (n > 0) { ssize_t r = write(g_crashFd, b, (size_t)n); (void)r; }
}
static void on_signal(int sig) {
  if (sig == SIGALRM) { crash_line("HANG", sig); _exit(78); }
  crash_line("SIGNAL", sig);
  _exit(sig == SIGSEGV || sig == SIGBUS ? 76 : 75);
}
static void on_terminate() {
  crash_line("TERMINATE", 0);
  _exit(79);
}
extern "C" void __asan_on_error() {}
#ifdef SIM_SANITIZE
extern "C" void __sanitizer_set_death_callback(void (*)(void));
static bool g_deathReported = false;
static void on_sanitizer_death() { if (!g_deathReported) { g_deathReported = true; crash_line("SANITIZER", 0); } }
#endif
// quarantine_size_mb: the default 256 MB per worker makes 16 workers fault in fresh pages all the time (a quarter of the CPU time was
// system time, several times more on a freshly restored VM); 16 MB still holds the frees of thousands of runs
extern "C" __attribute__((used)) const char *__asan_default_options() { return "exitcode=77:detect_leaks=0:abort_on_error=0:allocator_may_return_null=1:quarantine_size_mb=16"; }
extern "C" __attribute__((used)) const char *__ubsan_default_options() { return "halt_on_error=1:exitcode=77:print_stacktrace=0"; }

static void install_handlers() {
  std::set_terminate(on_terminate);
#ifdef SIM_SANITIZE
  __sanitizer_set_death_callback(on_sanitizer_death);
#endif
  struct sigaction sa;
  memset(&sa, 0, sizeof sa);
  sa.sa_handler = on_signal;
  sigaction(SIGALRM, &sa, nullptr);
  sigaction(SIGABRT, &sa, nullptr);
#ifndef SIM_ASAN
  sigaction(SIGSEGV, &sa, nullptr);
  sigaction(SIGBUS, &sa, nullptr);
  sigaction(SIGFPE, &sa, nullptr);
  sigaction(SIGILL, &sa, nullptr);
#endif
}

// ------------------------------------------------------------------------------------------------ helpers
static uint64_t fnv(const std::string &s) {
  uint64_t h = 1469598103934665603ULL;
  for (unsigned char c : s) { h ^= c; h *= 1099511628211ULL; }
  return h;
}
static uint64_t run_seed(uint64_t base, const std::string &family, const std::string &profile, uint64_t idx) {
  return mix64(mix64(base, fnv(family + "/" + profile)), idx);
}
#ifdef SIM_VEC_ONLY
namespace sim { Engine *set_engine() { return nullptr; } }  // pre-C++17 builds carry the vector engine only (SmallSet needs C++17)
#endif
static Engine *engine_by_name(const std::string &n) {
  if (n == "vec") return vec_engine();
  if (n == "set") return set_engine();
  return nullptr;
}
static std::string one_line(std::string s) {
  for (char &c : s) if (c == '\n' || c == '\r') c = ' ';
  return s;
}
static std::string json_escape(const std::string &s) {
  std::string o;
  for (char c : s) {
    if (c == '"' || c == '\\') { o += '\\'; o += c; }
    else if ((unsigned char)c < 0x20) o += ' ';
    else o += c;
  }
  return o;
}
static bool read_file(const char *path, std::string &out) {
  std::ifstream f(path);
  if (!f) return false;
  std::stringstream ss;
  ss << f.rdbuf();
  out = ss.str();
  return true;
}
static void stats_json(const Stats &st, double secs, std::string &o) {
  std::ostringstream s;
  s << "{\"runs\":" << st.runs << ",\"ops\":" << st.ops << ",\"noops\":" << st.noops << ",\"alloc_events\":" << st.allocEvents
    << ",\"elem_events\":" << st.elemEvents << ",\"cmp_calls\":" << st.cmpCalls << ",\"faults_attached\":" << st.faultsAttached
    << ",\"faults_fired_elem\":" << st.faultsFiredElem << ",\"faults_fired_alloc\":" << st.faultsFiredAlloc << ",\"limit_throws\":" << st.limitThrows
    << ",\"realloc_moved\":" << st.reallocMoved << ",\"realloc_in_place\":" << st.reallocInPlace << ",\"block_reused\":" << st.blockReused
    << ",\"distinct_hashes\":" << st.hashes.size() << ",\"secs\":" << secs;
  s << ",\"probes\":{";
  bool first = true;
  for (auto &kv : st.probes) { s << (first ? "" : ",") << "\"" << kv.first << "\":" << kv.second; first = false; }
  s << "},\"op_kinds\":{";
  first = true;
  for (auto &kv : st.opKinds) { s << (first ? "" : ",") << "\"" << kv.first << "\":" << kv.second; first = false; }
  s << "},\"fired_by_op\":{";
  first = true;
  for (auto &kv : st.firedByOp) { s << (first ? "" : ",") << "\"" << kv.first << "\":" << kv.second; first = false; }
  s << "},\"cells\":{";
  first = true;
  for (auto &kv : st.cells) {
    s << (first ? "" : ",") << "\"" << kv.first << "\":[";
    bool f2 = true;
    for (uint64_t c : kv.second) { s << (f2 ? "" : ",") << c; f2 = false; }
    s << "]";
    first = false;
  }
  s << "}}";
  o = s.str();
}

// C14 attribution: a violation after a relocate that disappears when relocates are disabled is a C14 violation
static void attribute_reloc(Engine *e, const Plan &p, RunOut &out) {
  if (!out.viol.set() || !out.relocExecuted) { out.viol.props &= ~P(14); return; }
  Plan q = p;
  q.noReloc = true;
  RunOut o2 = e->run(q, nullptr, false);
  if (!o2.viol.set()) out.viol.props = P(14);
  else out.viol.props &= ~P(14);
}

static void print_violation(const char *tag, uint64_t idx, uint64_t seed, const Plan &p, const RunOut &out, Engine *e) {
  printf("%s run=%llu seed=%llu family=%s profile=%s props=%s kind=%s op=%d opkind=%s what=%s\n", tag, (unsigned long long)idx,
         (unsigned long long)seed, p.config.c_str(), p.profile.c_str(), props_str(out.viol.props).c_str(), vkind_name(out.viol.kind), out.viol.opIndex,
         out.viol.opKind >= 0 ? e->op_name(out.viol.opKind) : "-", one_line(out.viol.what).c_str());
  fflush(stdout);
}

// ------------------------------------------------------------------------------------------------ run
static int cmd_run(int argc, char **argv) {
  if (argc < 8) return 2;
  Engine *e = engine_by_name(argv[2]);
  if (!e) { fprintf(stderr, "no such engine\n"); return 2; }
  std::string family = argv[3], profile = argv[4];
  uint64_t base = strtoull(argv[5], nullptr, 10), start = strtoull(argv[6], nullptr, 10), count = strtoull(argv[7], nullptr, 10);
  double maxSecs = argc > 8 ? atof(argv[8]) : 1e9;
  unsigned stride = argc > 9 ? (unsigned)atoi(argv[9]) : 1;
  if (!e->has_family(family)) { fprintf(stderr, "no such family %s\n", family.c_str()); return 2; }
  Stats st;
  auto t0 = std::chrono::steady_clock::now();
  unsigned nviol = 0;
  snprintf(g_crash.config, sizeof g_crash.config, "%s", family.c_str());
  snprintf(g_crash.profile, sizeof g_crash.profile, "%s", profile.c_str());
  uint64_t done = 0;
  for (uint64_t k = 0; k < count; ++k) {
    uint64_t i = start + k * stride;
    uint64_t seed = run_seed(base, family, profile, i);
    g_crash.seed = seed; g_crash.runIndex = (int)i; g_crash.active = 1;
    Plan p;
    if (!e->gen(family, profile, seed, p)) { fprintf(stderr, "cannot generate (profile %s)\n", profile.c_str()); return 2; }
    alarm(90);
    RunOut out = e->run(p, &st, false);
    if (out.viol.set()) {
      attribute_reloc(e, p, out);
      alarm(0);
      if (out.viol.kind == VK_INTERNAL) { print_violation("INTERNAL", i, seed, p, out, e); return 2; }
      print_violation("V", i, seed, p, out, e);
      ++nviol;
    }
    ++done;
    if ((k & 63) == 0) {
      double secs = std::chrono::duration<double>(std::chrono::steady_clock::now() - t0).count();
      if (secs > maxSecs) break;
    }
  }
  alarm(0);
  g_crash.active = 0;
  double secs = std::chrono::duration<double>(std::chrono::steady_clock::now() - t0).count();
  std::string js;
  stats_json(st, secs, js);
  printf("STATS %s\n", js.c_str());
  printf("DONE runs=%llu violations=%u\n", (unsigned long long)done, nviol);
  fflush(stdout);
  return nviol ? 1 : 0;
}

// ------------------------------------------------------------------------------------------------ hashes (determinism self-test)
static int cmd_hashes(int argc, char **argv) {
  if (argc < 8) return 2;
  Engine *e = engine_by_name(argv[2]);
  if (!e) return 2;
  std::string family = argv[3], profile = argv[4];
  uint64_t base = strtoull(argv[5], nullptr, 10), start = strtoull(argv[6], nullptr, 10), count = strtoull(argv[7], nullptr, 10);
  unsigned stride = argc > 8 ? (unsigned)atoi(argv[8]) : 1;
  if (!e->has_family(family)) return 2;
  for (uint64_t k = 0; k < count; ++k) {
    uint64_t i = start + k * stride;
    uint64_t seed = run_seed(base, family, profile, i);
    g_crash.seed = seed; g_crash.runIndex = (int)i;
    Plan p;
    if (profile == "scenario" ? !e->gen_scenario(family, seed, p) : !e->gen(family, profile, seed, p)) return 2;
    alarm(90);
    RunOut out = e->run(p, nullptr, false);
    printf("H %llu %016llx %s %d\n", (unsigned long long)i, (unsigned long long)out.hash, vkind_name(out.viol.kind), out.viol.opIndex);
  }
  alarm(0);
  printf("DONE\n");
  return 0;
}

// ------------------------------------------------------------------------------------------------ C09 mode A
static int cmd_enum(int argc, char **argv) {
  if (argc < 7) return 2;
  Engine *e = engine_by_name(argv[2]);
  if (!e) return 2;
  std::string family = argv[3];
  uint64_t base = strtoull(argv[4], nullptr, 10), start = strtoull(argv[5], nullptr, 10), count = strtoull(argv[6], nullptr, 10);
  double maxSecs = argc > 7 ? atof(argv[7]) : 1e9;
  unsigned stride = argc > 8 ? (unsigned)atoi(argv[8]) : 1;
  if (!e->has_family(family)) return 2;
  Stats st;
  auto t0 = std::chrono::steady_clock::now();
  unsigned nviol = 0;
  uint64_t scenarios = 0, executions = 0, maxPoints = 0, sumPoints = 0;
  snprintf(g_crash.config, sizeof g_crash.config, "%s", family.c_str());
  snprintf(g_crash.profile, sizeof g_crash.profile, "scenario");
  for (uint64_t k = 0; k < count; ++k) {
    uint64_t i = start + k * stride;
    uint64_t seed = run_seed(base, family, "scenario", i);
    g_crash.seed = seed; g_crash.runIndex = (int)i; g_crash.active = 1;
    Plan p;
    if (!e->gen_scenario(family, seed, p)) return 2;
    ++scenarios;
    uint64_t points = 0;
    bool scenarioViolated = false;
    for (int kind = F_ELEM; kind <= F_ALLOC && !scenarioViolated; ++kind) {
      for (int fk = 0; fk < 400; ++fk) {
        Plan q = p;
        q.ops.back().fkind = kind; q.ops.back().fk = fk;
        g_crash.faultKind = kind; g_crash.faultK = fk;
        alarm(90);
        uint64_t fe0 = st.faultsFiredElem, fa0 = st.faultsFiredAlloc;
        RunOut out = e->run(q, &st, false);
        ++executions;
        bool firedNow = (st.faultsFiredElem + st.faultsFiredAlloc) != (fe0 + fa0);
        if (out.viol.set()) {
          alarm(0);
          if (out.viol.kind == VK_INTERNAL) { print_violation("INTERNAL", i, seed, q, out, e); return 2; }
          char tag[48];
          snprintf(tag, sizeof tag, "V fault=%d:%d", kind, fk);
          print_violation(tag, i, seed, q, out, e);
          ++nviol;
          scenarioViolated = true;
          break;
        }
        if (!firedNow) break;  // the operation completed without reaching throw point fk: all throw points visited
        ++points;
      }
    }
    sumPoints += points;
    if (points > maxPoints) maxPoints = points;
    if ((k & 15) == 0) {
      double secs = std::chrono::duration<double>(std::chrono::steady_clock::now() - t0).count();
      if (secs > maxSecs) break;
    }
  }
  alarm(0);
  g_crash.active = 0;
  double secs = std::chrono::duration<double>(std::chrono::steady_clock::now() - t0).count();
  st.probes["scenarios"] = scenarios; st.probes["fault_executions"] = executions; st.probes["max_throw_points_per_op"] = maxPoints;
  st.probes["sum_throw_points"] = sumPoints;
  std::string js;
  stats_json(st, secs, js);
  printf("STATS %s\n", js.c_str());
  printf("DONE runs=%llu violations=%u\n", (unsigned long long)scenarios, nviol);
  fflush(stdout);
  return nviol ? 1 : 0;
}

// ------------------------------------------------------------------------------------------------ plan / exec
static int cmd_plan(int argc, char **argv) {
  if (argc < 6) return 2;
  Engine *e = engine_by_name(argv[2]);
  if (!e) return 2;
  Plan p;
  uint64_t seed = strtoull(argv[5], nullptr, 10);
  bool ok = std::string(argv[4]) == "scenario" ? e->gen_scenario(argv[3], seed, p) : e->gen(argv[3], argv[4], seed, p);
  if (!ok) return 2;
  if (argc > 6) {  // fault=K:k attached to the last op (scenario replays)
    int fkind = 0, fk = 0;
    if (sscanf(argv[6], "%d:%d", &fkind, &fk) == 2 && !p.ops.empty()) { p.ops.back().fkind = fkind; p.ops.back().fk = fk; }
  }
  struct N { static Engine *&eng() { static Engine *x; return x; } static const char *name(int k) { return eng()->op_name(k); } };
  N::eng() = e;
  fputs(plan_to_text(p, &N::name).c_str(), stdout);
  return 0;
}

struct OpNames {
  static Engine *&eng() { static Engine *x; return x; }
  static const char *name(int k) { return eng()->op_name(k); }
  static int kind(const std::string &n) { return eng()->op_kind(n); }
};

static bool load_plan(const char *path, Plan &p, Engine *&e) {
  std::string text, err;
  if (!read_file(path, text)) { fprintf(stderr, "cannot read %s\n", path); return false; }
  // peek the engine
  std::string eng = "vec";
  size_t pos = text.find("\nengine ");
  if (pos != std::string::npos) { std::istringstream ls(text.substr(pos + 8)); ls >> eng; }
  e = engine_by_name(eng);
  if (!e) { fprintf(stderr, "engine %s not available\n", eng.c_str()); return false; }
  OpNames::eng() = e;
  if (!plan_from_text(text, p, &OpNames::kind, err)) { fprintf(stderr, "bad plan: %s\n", err.c_str()); return false; }
  if (!e->has_family(p.config)) { fprintf(stderr, "family %s not in this build\n", p.config.c_str()); return false; }
  return true;
}

static int cmd_exec(int argc, char **argv) {
  if (argc < 3) return 2;
  bool wantT = argc > 3 && std::string(argv[3]) == "-t";
  Plan p;
  Engine *e = nullptr;
  if (!load_plan(argv[2], p, e)) return 2;
  g_crash.seed = p.seed; g_crash.runIndex = -1; g_crash.active = 1;
  alarm(30);
  RunOut out = e->run(p, nullptr, wantT);
  attribute_reloc(e, p, out);
  alarm(30);
  RunOut out2 = e->run(p, nullptr, false);  // same process, second execution: must be identical
  alarm(0);
  if (wantT) fputs(out.transcript.c_str(), stdout);
  bool same = out.hash == out2.hash && out.viol.kind == out2.viol.kind && out.viol.opIndex == out2.viol.opIndex;
  printf("RESULT kind=%s props=%s op=%d opkind=%s hash=%016llx deterministic=%d what=%s\n", vkind_name(out.viol.kind), props_str(out.viol.props).c_str(),
         out.viol.opIndex, out.viol.opKind >= 0 ? e->op_name(out.viol.opKind) : "-", (unsigned long long)out.hash, same ? 1 : 0,
         one_line(out.viol.what).c_str());
  if (!p.expectKind.empty()) {
    char h[32];
    snprintf(h, sizeof h, "%016llx", (unsigned long long)out.hash);
    bool rep = p.expectKind == vkind_name(out.viol.kind) && (p.expectHash == h || p.expectHash == "-");
    printf("%s expected kind=%s hash=%s\n", rep ? "REPRODUCED" : "NOT-REPRODUCED", p.expectKind.c_str(), p.expectHash.c_str());
  }
  fflush(stdout);
  if (!same) return 2;
  return out.viol.set() ? 1 : 0;
}

// ------------------------------------------------------------------------------------------------ shrink
struct Eval {
  int kind = VK_NONE;
  PropMask props = 0;
  int opKind = -1;
  uint64_t hash = 0;
  std::string what;
};
static unsigned g_evals = 0;

// evaluate a plan in a forked child (crash- and hang-safe)
static Eval eval_forked(Engine *e, const Plan &p) {
  ++g_evals;
  Eval ev;
  int fds[2];
  if (pipe(fds) != 0) return ev;
  fflush(stdout);
  pid_t pid = fork();
  if (pid == 0) {
    close(fds[0]);
    g_crashFd = fds[1];
    g_crash.seed = p.seed; g_crash.active = 1;
    alarm(8);
    RunOut out = e->run(p, nullptr, false);
    attribute_reloc(e, p, out);
    char b[700];
    int n = snprintf(b, sizeof b, "R %d %u %d %llu %s\n", out.viol.kind, out.viol.props, out.viol.opKind, (unsigned long long)out.hash,
                     one_line(out.viol.what).c_str());
    ssize_t r = write(fds[1], b, (size_t)(n < (int)sizeof b ? n : (int)sizeof b - 1));
    (void)r;
    _exit(0);
  }
  close(fds[1]);
  std::string buf;
  char tmp[1024];
  ssize_t n;
  while ((n = read(fds[0], tmp, sizeof tmp)) > 0) buf.append(tmp, (size_t)n);
  close(fds[0]);
  int status = 0;
  waitpid(pid, &status, 0);
  size_t rp = buf.find("R ");
  size_t cp = buf.find("CRASH ");
  if (cp != std::string::npos) {
    ev.kind = buf.find("class=HANG") != std::string::npos ? VK_HANG : VK_CRASH;
    size_t pp = buf.find("props=", cp);
    if (pp != std::string::npos) {
      std::string ps = buf.substr(pp + 6, buf.find(' ', pp) - pp - 6);
      for (int c = 1; c <= 20; ++c) { char nm[8]; snprintf(nm, sizeof nm, "C%02d", c); if (ps.find(nm) != std::string::npos) ev.props |= P(c); }
    }
    size_t op = buf.find("opname=", cp);
    if (op != std::string::npos) ev.opKind = e->op_kind(buf.substr(op + 7, buf.find(' ', op) - op - 7));
    ev.what = one_line(buf.substr(cp));
    return ev;
  }
  if (rp != std::string::npos && WIFEXITED(status) && WEXITSTATUS(status) == 0) {
    std::istringstream ls(buf.substr(rp + 2));
    unsigned long long h;
    ls >> ev.kind >> ev.props >> ev.opKind >> h;
    ev.hash = h;
    std::getline(ls, ev.what);
    return ev;
  }
  ev.kind = VK_CRASH; ev.props = P(2); ev.what = "child died without a report";
  return ev;
}
static Eval eval_inproc(Engine *e, const Plan &p) {
  ++g_evals;
  alarm(90);
  RunOut out = e->run(p, nullptr, false);
  attribute_reloc(e, p, out);
  alarm(0);
  Eval ev;
  ev.kind = out.viol.kind; ev.props = out.viol.props; ev.opKind = out.viol.opKind; ev.hash = out.hash; ev.what = out.viol.what;
  return ev;
}

static int cmd_shrink(int argc, char **argv) {
  if (argc < 5) return 2;
  Plan p;
  Engine *e = nullptr;
  if (!load_plan(argv[2], p, e)) return 2;
  std::string propArg = argv[3];
  PropMask want = 0;
  if (propArg != "any") want = P(atoi(propArg.c_str() + 1));
  bool forked = true;
  bool forceFork = false;
  for (int i = 2; i < argc; ++i) if (std::string(argv[i]) == "--fork") forceFork = true;  // a candidate of a non-crashing violation may crash: evaluate every one in a child
  Eval first = eval_forked(e, p);
  if (first.kind == VK_NONE) { printf("SHRINK no-violation\n"); return 0; }
  if (want && !(first.props & want)) { printf("SHRINK property-not-in-set props=%s\n", props_str(first.props).c_str()); return 0; }
  forked = forceFork || first.kind == VK_CRASH || first.kind == VK_HANG;
  int kind = first.kind;
  auto same = [&](const Eval &ev) {
    if (ev.kind != kind) return false;
    if (want && !(ev.props & want)) return false;
    return true;
  };
  auto eval = [&](const Plan &q) { return forked ? eval_forked(e, q) : eval_inproc(e, q); };
  size_t origOps = p.ops.size();
  // ddmin over the operation list
  size_t chunk = p.ops.size() / 2;
  if (!chunk) chunk = 1;
  while (true) {
    bool removed = false;
    for (size_t i = 0; i < p.ops.size();) {
      if (p.ops.size() <= 1) break;
      Plan q = p;
      size_t end = std::min(i + chunk, q.ops.size());
      q.ops.erase(q.ops.begin() + i, q.ops.begin() + end);
      if (q.ops.empty()) { i += chunk; continue; }
      if (same(eval(q))) { p = q; removed = true; }
      else i += chunk;
    }
    if (chunk == 1 && !removed) break;
    if (!removed) chunk = chunk > 1 ? (chunk + 1) / 2 : 1;
    if (g_evals > 4000) break;
  }
  // argument simplification
  for (size_t i = 0; i < p.ops.size() && g_evals < 6000; ++i) {
    {  // drop the attached fault
      if (p.ops[i].fkind) { Plan q = p; q.ops[i].fkind = 0; q.ops[i].fk = 0; if (same(eval(q))) p = q; }
      if (p.ops[i].fkind && p.ops[i].fk) { for (int cand = 0; cand < p.ops[i].fk; ++cand) { Plan q = p; q.ops[i].fk = cand; if (same(eval(q))) { p = q; break; } } }
    }
    unsigned Op::*fields[] = {&Op::a, &Op::b, &Op::n, &Op::c, &Op::d};
    for (auto f : fields) {
      for (unsigned cand : {0u, 1u, 2u, 3u}) {
        if (p.ops[i].*f <= cand) break;
        Plan q = p;
        q.ops[i].*f = cand;
        if (same(eval(q))) { p = q; break; }
      }
    }
    if (p.ops[i].src) { Plan q = p; q.ops[i].src = 0; if (same(eval(q))) p = q; }
  }
  // smaller pool
  while (p.types.size() > 1 && g_evals < 6500) {
    Plan q = p;
    q.types.pop_back();
    if (same(eval(q))) p = q; else break;
  }
  Eval fin = eval(p);
  char h[32];
  snprintf(h, sizeof h, "%016llx", (unsigned long long)fin.hash);
  p.expectKind = vkind_name(fin.kind); p.expectProps = props_str(fin.props); p.expectHash = (forked ? "-" : h);
  p.note = one_line(fin.what);
  std::ofstream of(argv[4]);
  of << plan_to_text(p, &OpNames::name);
  of.close();
  printf("SHRINK ok ops=%zu->%zu evals=%u kind=%s props=%s forked=%d what=%s\n", origOps, p.ops.size(), g_evals, vkind_name(fin.kind),
         props_str(fin.props).c_str(), forked ? 1 : 0, one_line(fin.what).c_str());
  return 0;
}

static int cmd_sig(int argc, char **argv) {
  if (argc < 3) return 2;
  Plan p;
  Engine *e = nullptr;
  if (!load_plan(argv[2], p, e)) return 2;
  // run in a child first: the plan may crash
  Eval ev = eval_forked(e, p);
  if (ev.kind == VK_NONE) { printf("SIG none\n"); return 0; }
  if (ev.kind == VK_CRASH || ev.kind == VK_HANG) {
    printf("SIG engine=%s ops=%zu lastop=%s kind=%s\n", p.engine.c_str(), p.ops.size(), ev.opKind >= 0 ? e->op_name(ev.opKind) : "?", vkind_name(ev.kind));
    return 0;
  }
  Violation v;
  v.kind = ev.kind;
  printf("SIG engine=%s %s\n", p.engine.c_str(), e->signature(p, v).c_str());
  return 0;
}

static int cmd_list() {
  printf("{\"engines\":[");
  Engine *es[] = {vec_engine(), set_engine()};
  bool first = true;
  for (Engine *e : es) {
    if (!e) continue;
    printf("%s{\"name\":\"%s\",\"profiles\":[", first ? "" : ",", e->name());
    first = false;
    auto ps = e->profiles();
    for (size_t i = 0; i < ps.size(); ++i) printf("%s\"%s\"", i ? "," : "", ps[i].c_str());
    printf("],\"families\":[");
    auto fs = e->families();
    for (size_t i = 0; i < fs.size(); ++i) printf("%s%s", i ? "," : "", e->describe_family(fs[i]).c_str());
    printf("]}");
  }
  printf("]}\n");
  return 0;
}

int main(int argc, char **argv) {
  setvbuf(stdout, nullptr, _IOLBF, 0);
  install_handlers();
  if (argc < 2) { fprintf(stderr, "usage: sim list|run|enum|plan|exec|shrink|sig ...\n"); return 2; }
  std::string cmd = argv[1];
  if (cmd == "list") return cmd_list();
  if (cmd == "run") return cmd_run(argc, argv);
  if (cmd == "enum") return cmd_enum(argc, argv);
  if (cmd == "hashes") return cmd_hashes(argc, argv);
  if (cmd == "plan") return cmd_plan(argc, argv);
  if (cmd == "exec") return cmd_exec(argc, argv);
  if (cmd == "shrink") return cmd_shrink(argc, argv);
  if (cmd == "sig") return cmd_sig(argc, argv);
  (void)json_escape;
  fprintf(stderr, "unknown command %s\n", cmd.c_str());
  return 2;
}
