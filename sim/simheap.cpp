#include "simheap.hpp"

#include <sys/mman.h>

#include <cstdlib>
#include <new>

namespace sim {

World G;
CrashCtx g_crash;
SimHeap g_heap;

static const unsigned char kCanary = 0xA7;

SimHeap::SimHeap() : base_(nullptr), bump_(0) {
  void *p = mmap(nullptr, kArena, PROT_READ | PROT_WRITE, MAP_PRIVATE | MAP_ANONYMOUS | MAP_NORESERVE, -1, 0);
  if (p == MAP_FAILED) { fprintf(stderr, "SimHeap: mmap failed\n"); abort(); }
  base_ = (char *)p;
}

void SimHeap::reset() {
  if (bump_) { SIM_UNPOISON(base_, bump_ + kRed); }
  blocks_.clear(); liveByOff_.clear(); freeList_.clear();
  bump_ = 0;
}

void SimHeap::log(const char *kind, size_t count, long off) {
  char b[64];
  snprintf(b, sizeof b, "(%s,%zu,%ld)", kind, count, off);
  G.allocLog += b;
}

void SimHeap::set_canaries(const Block &b) {
#ifdef SIM_ASAN
  SIM_POISON(base_ + b.off - kRed, kRed);
  SIM_UNPOISON(base_ + b.off, b.bytes);
  SIM_POISON(base_ + b.off + b.bytes, b.phys - b.bytes + kRed);
#else
  memset(base_ + b.off - kRed, kCanary, kRed);
  memset(base_ + b.off + b.bytes, kCanary, kRed);
#endif
}

bool SimHeap::canaries_ok(const Block &b, bool *front) const {
#ifdef SIM_ASAN
  (void)b; (void)front;
  return true;
#else
  const unsigned char *f = (const unsigned char *)base_ + b.off - kRed;
  for (size_t i = 0; i < kRed; ++i)
    if (f[i] != kCanary) { *front = true; return false; }
  const unsigned char *k = (const unsigned char *)base_ + b.off + b.bytes;
  for (size_t i = 0; i < kRed; ++i)
    if (k[i] != kCanary) { *front = false; return false; }
  return true;
#endif
}

int SimHeap::place(size_t bytes) {
  uint64_t d = G.env_decision();
  bool tryReuse = (d & 3) != 0;  // 75 %: prefer a recently freed block (maximises stale-pointer aliasing)
  if (tryReuse) {
    size_t n = freeList_.size();
    for (size_t i = 0; i < n && i < 6; ++i) {
      int bi = freeList_[n - 1 - i];
      if (blocks_[bi].phys >= bytes) {
        freeList_.erase(freeList_.begin() + (n - 1 - i));
        ++G.blockReused;
        return bi;
      }
    }
  }
  size_t phys = bytes < 32 ? 64 : bytes * 2;
  phys = (phys + kAlign - 1) / kAlign * kAlign;
  size_t off = (bump_ + kRed + kAlign - 1) / kAlign * kAlign;
  if (off + phys + kRed + kAlign > kArena) {
    G.violate(VK_INTERNAL, 0, "SimHeap arena exhausted");
    // wrap around brutally; the run is aborted by the INTERNAL violation
    off = kAlign + kRed;
  }
  bump_ = off + phys + kRed;
  Block b;
  b.off = off; b.phys = phys; b.bytes = 0; b.count = 0; b.elemSize = 0; b.domain = 0; b.live = false; b.bornOp = -1;
  blocks_.push_back(b);
  return (int)blocks_.size() - 1;
}

void *SimHeap::allocate(size_t bytes, size_t count, size_t elemSize, int domain, bool nullOnFault) {
  HScope hs;
  ++G.opAllocCalls;
  if (G.alloc_throw_point()) {
    log("a!", count ? count : bytes, -1);
    if (nullOnFault) return nullptr;
    if (G.env_decision() & 1) throw SimFault();  // an allocator may fail with an exception type of its own
    throw std::bad_alloc();
  }
  int bi = place(bytes);
  Block &b = blocks_[bi];
  b.bytes = bytes; b.count = count; b.elemSize = elemSize; b.domain = domain; b.live = true; b.bornOp = G.opIndex;
  SIM_UNPOISON(base_ + b.off, b.phys);
  memset(base_ + b.off, 0xCD, b.phys);
  set_canaries(b);
  liveByOff_[b.off] = bi;
  log("a", count ? count : bytes, (long)b.off);
  return base_ + b.off;
}

const SimHeap::Block *SimHeap::find_live(const void *p) const {
  if (!owns(p)) return nullptr;
  auto it = liveByOff_.find((size_t)((const char *)p - base_));
  return it == liveByOff_.end() ? nullptr : &blocks_[it->second];
}

const SimHeap::Block *SimHeap::containing(const void *p) const {
  if (!owns(p) || liveByOff_.empty()) return nullptr;
  size_t off = (size_t)((const char *)p - base_);
  auto it = liveByOff_.upper_bound(off);
  if (it == liveByOff_.begin()) return nullptr;
  --it;
  const Block &b = blocks_[it->second];
  return (off >= b.off && off < b.off + (b.bytes ? b.bytes : 1)) ? &b : nullptr;
}

void SimHeap::deallocate(void *p, size_t bytes, size_t count, size_t elemSize, int domain, bool sizeKnown) {
  HScope hs;
  if (!p) { ++G.opNullDealloc; return; }  // deallocate(nullptr, n): not a block event (see DESIGN C06)
  ++G.opDeallocCalls;
  auto it = owns(p) ? liveByOff_.find((size_t)((char *)p - base_)) : liveByOff_.end();
  if (it == liveByOff_.end()) {
    log("d?", count ? count : bytes, offset_of(p));
    G.violate_ctx(VK_ALLOC, P(6), "deallocate of a pointer that is not a live block of the allocator (double free / foreign pointer)");
    return;
  }
  Block &b = blocks_[it->second];
  log("d", count ? count : bytes, (long)b.off);
  if (b.domain != domain) {
    G.violate_ctx(VK_ALLOC, P(6), std::string("block obtained from allocator domain '") + domain_name(b.domain) +
                                    "' returned through domain '" + domain_name(domain) + "'");
  } else if (sizeKnown && (b.bytes != bytes || b.count != count || b.elemSize != elemSize)) {
    char m[200];
    snprintf(m, sizeof m, "deallocate with count %zu (x%zu bytes) but the block was obtained/last reallocated with count %zu (x%zu bytes)",
             count ? count : bytes, elemSize ? elemSize : 1, b.count ? b.count : b.bytes, b.elemSize ? b.elemSize : 1);
    G.violate_ctx(VK_ALLOC, P(6), m);
  }
  bool front = false;
  if (!canaries_ok(b, &front))
    G.violate_ctx(VK_CANARY, P(2), front ? "write before the start of an allocated block" : "write past the end of an allocated block");
  b.live = false;
  SIM_UNPOISON(base_ + b.off - kRed, b.phys + 2 * kRed);
  memset(base_ + b.off, 0xDD, b.phys);
  SIM_POISON(base_ + b.off - kRed, b.phys + 2 * kRed);
  freeList_.push_back(it->second);
  liveByOff_.erase(it);
}

void *SimHeap::reallocate(void *p, size_t oldBytes, size_t newBytes, size_t newCount, size_t elemSize, int domain,
                          bool oldKnown, bool nullOnFault) {
  HScope hs;
  if (!p) {
    // reallocate(nullptr, 0, n): an allocation (realloc(NULL, n) is well defined)
    return allocate(newBytes, newCount, elemSize, domain, nullOnFault);
  }
  ++G.opReallocCalls;
  auto it = owns(p) ? liveByOff_.find((size_t)((char *)p - base_)) : liveByOff_.end();
  if (it == liveByOff_.end()) {
    log("r?", newCount ? newCount : newBytes, offset_of(p));
    G.violate_ctx(VK_ALLOC, P(6), "reallocate of a pointer that is not a live block of the allocator");
    return allocate(newBytes, newCount, elemSize, domain, nullOnFault);
  }
  int bi = it->second;
  if (G.alloc_throw_point()) {
    log("r!", newCount ? newCount : newBytes, (long)blocks_[bi].off);
    if (nullOnFault) return nullptr;
    if (G.env_decision() & 1) throw SimFault();
    throw std::bad_alloc();
  }
  {
    Block &b = blocks_[bi];
    if (b.domain != domain)
      G.violate_ctx(VK_ALLOC, P(6), std::string("block of domain '") + domain_name(b.domain) + "' reallocated through domain '" +
                                      domain_name(domain) + "'");
    else if (oldKnown && b.bytes != oldBytes) {
      char m[200];
      snprintf(m, sizeof m, "reallocate given old size %zu bytes but the block has %zu bytes (wrong old capacity)", oldBytes, b.bytes);
      G.violate_ctx(VK_ALLOC, P(6), m);
    }
    bool front = false;
    if (!canaries_ok(b, &front))
      G.violate_ctx(VK_CANARY, P(2), front ? "write before the start of an allocated block" : "write past the end of an allocated block");
  }
  uint64_t d = G.env_decision();
  bool inPlace = newBytes <= blocks_[bi].phys && (d % 5) == 0;  // moving is the adversarial default
  if (inPlace) {
    Block &b = blocks_[bi];
    SIM_UNPOISON(base_ + b.off, b.phys);
    if (newBytes > b.bytes) memset(base_ + b.off + b.bytes, 0xCD, newBytes - b.bytes);
    b.bytes = newBytes; b.count = newCount; b.elemSize = elemSize;
    set_canaries(b);
    ++G.reallocInPlace;
    log("r=", newCount ? newCount : newBytes, (long)b.off);
    return base_ + b.off;
  }
  int ni = place(newBytes);
  Block &nb = blocks_[ni];
  Block &ob = blocks_[bi];
  nb.bytes = newBytes; nb.count = newCount; nb.elemSize = elemSize; nb.domain = domain; nb.live = true; nb.bornOp = G.opIndex;
  SIM_UNPOISON(base_ + nb.off, nb.phys);
  memset(base_ + nb.off, 0xCD, nb.phys);
  size_t keep = ob.bytes < newBytes ? ob.bytes : newBytes;
  memcpy(base_ + nb.off, base_ + ob.off, keep);
  G.opRelocElems += keep;  // bytes; converted by the caller
  set_canaries(nb);
  liveByOff_[nb.off] = ni;
  // retire the old block
  ob.live = false;
  SIM_UNPOISON(base_ + ob.off - kRed, ob.phys + 2 * kRed);
  memset(base_ + ob.off, 0xDD, ob.phys);
  SIM_POISON(base_ + ob.off - kRed, ob.phys + 2 * kRed);
  freeList_.push_back(bi);
  liveByOff_.erase(ob.off);
  ++G.reallocMoved;
  log("r>", newCount ? newCount : newBytes, (long)nb.off);
  return base_ + nb.off;
}

size_t SimHeap::live_bytes() const {
  size_t s = 0;
  for (auto &kv : liveByOff_) s += blocks_[kv.second].bytes;
  return s;
}

void SimHeap::check_canaries() {
  for (auto &kv : liveByOff_) {
    bool front = false;
    if (!canaries_ok(blocks_[kv.second], &front)) {
      G.violate_ctx(VK_CANARY, P(2), front ? "write before the start of an allocated block" : "write past the end of an allocated block");
      return;
    }
  }
}

std::string SimHeap::describe_live() const {
  std::string s;
  for (auto &kv : liveByOff_) {
    const Block &b = blocks_[kv.second];
    char m[96];
    snprintf(m, sizeof m, "[off=%zu bytes=%zu count=%zu dom=%s bornOp=%d]", b.off, b.bytes, b.count, domain_name(b.domain), b.bornOp);
    s += m;
  }
  return s;
}

void SimHeap::check_no_leak(const char *when) {
  if (!liveByOff_.empty()) {
    char m[64];
    snprintf(m, sizeof m, "%zu block(s) outstanding %s: ", liveByOff_.size(), when);
    G.violate(VK_ALLOC, P(6), std::string(m) + describe_live());
  }
}

}  // namespace sim
