// Per-type adapters of the vector engine.  Included only by the family TUs (sim/tus/*.cpp).
#pragma once
#include <amc/fixedcapacityvector.hpp>
#include <amc/smallvector.hpp>
#include <amc/vector.hpp>

#include <algorithm>
#include <cstdio>
#include <cstdlib>
#include <initializer_list>
#include <string>
#include <tuple>
#include <new>
#include <stdexcept>
#include <type_traits>
#include <utility>

#include "elems.hpp"
#include "simalloc.hpp"
#include "streams.hpp"
#include "vec.hpp"

namespace sim {

template <class A>
struct AllocInfo {
  static const int domain = DOM_STD;
  static const bool hasRealloc = false;
};
template <>
struct AllocInfo<amc::vec::EmptyAlloc> {
  static const int domain = 0;
  static const bool hasRealloc = false;
};
template <class T>
struct AllocInfo<amc::BasicAllocatorWrapper<T, SimBasicAlloc>> {
  static const int domain = DOM_BASIC;
  static const bool hasRealloc = true;
};
template <class T>
struct AllocInfo<amc::BasicAllocatorWrapper<T, amc::SimpleAllocator>> {
  static const int domain = DOM_MALLOC;
  static const bool hasRealloc = true;
};
template <class T>
struct AllocInfo<SimReallocAlloc<T>> {
  static const int domain = DOM_REALLOC;
  static const bool hasRealloc = true;
};

/// Element input/output: how a model value (key, pay) becomes an element and back.  Class element types carry (key, pay)
/// themselves; arithmetic element types (double) encode it as key * 65536 + pay, and the model value (0, 0) alternates
/// between +0.0 and -0.0 (equal for std::vector, different bit patterns).
template <class T, bool Arith = std::is_arithmetic<T>::value>
struct ElemIO {
  static const bool hooks = T::kHooks;
  static const bool arith = false;
  static const int ledgerMode = 0;  // ledger objects per element: 0 -> one, 1 -> two, 2 -> one unless the value is (0,0)
  static T make(const Val &x) { return T(x.key, x.pay); }
  static Val val(const T &e) { return Val{e.k(), e.p()}; }
  static int state(const T &e) { return T::state_of(e); }
  template <class V> static T &emplace_back(V &v, const Val &x) { return v.emplace_back(x.key, x.pay); }
  template <class V, class It> static typename V::iterator emplace(V &v, It pos, const Val &x) { return v.emplace(pos, x.key, x.pay); }
  template <class V, class It> static typename V::iterator emplace_member(V &v, It pos, const T &src, int pay) { return v.emplace(pos, src.key_, pay); }
  template <class V> static T &emplace_back_member(V &v, const T &src, int pay) { return v.emplace_back(src.key_, pay); }
  template <class S> static auto set_emplace(S &s, const Val &x) -> decltype(s.emplace(x.key, x.pay)) { return s.emplace(x.key, x.pay); }
  template <class S, class It> static auto set_emplace_hint(S &s, It h, const Val &x) -> decltype(s.emplace_hint(h, x.key, x.pay)) { return s.emplace_hint(h, x.key, x.pay); }
};
extern unsigned g_zeroSign;
template <class T>
struct ElemIO<T, true> {
  static const bool hooks = false;
  static const bool arith = true;
  static const int ledgerMode = 0;
  static T make(const Val &x) {
    if (x.key == 0 && x.pay == 0) return (g_zeroSign++ & 1) ? T(-0.0) : T(0);
    return T((long long)x.key * 65536 + x.pay);
  }
  static Val val(const T &e) {
    if (!(e >= T(0) && e < T(1e15))) return Val{-1, -1};  // garbage / NaN
    long long n = (long long)e;
    return Val{int(n / 65536), int(n % 65536)};
  }
  static int state(const T &) { return ES_ALIVE; }
  template <class V> static T &emplace_back(V &v, const Val &x) { return v.emplace_back(make(x)); }
  template <class V, class It> static typename V::iterator emplace(V &v, It pos, const Val &x) { return v.emplace(pos, make(x)); }
  template <class V, class It> static typename V::iterator emplace_member(V &v, It pos, const T &, int) { return v.end() + 0 * (pos - pos); }
  template <class V> static T &emplace_back_member(V &v, const T &, int) { return v.back(); }
};

/// std::string elements (what users actually store): short strings live inside the string object (SSO), so a string moved by
/// raw byte copy keeps pointing into its old place.  (key, pay) is encoded zero-padded ("kkkkk:ppppppp") so that the lexicographic order of the
/// strings is the order of the model values; (0, 0) is the empty string (value-initialised element).
template <>
struct ElemIO<std::string, false> {
  typedef std::string T;
  static const bool hooks = false;
  static const bool arith = true;  // no member-argument emplace forms, bounded payloads
  static const int ledgerMode = 0;
  static T make(const Val &x) {
    if (x.key == 0 && x.pay == 0) return T();
    char b[32];
    snprintf(b, sizeof b, "%05d:%07d", x.key % 100000, x.pay % 10000000);  // 13 characters: still a short (in-object) string
    return T(b);
  }
  static Val val(const T &e) {
    if (e.empty()) return Val{0, 0};
    if (e.size() != 13 || e[5] != ':') return Val{-1, -1};
    for (size_t i = 0; i < 13; ++i) if (i != 5 && (e[i] < '0' || e[i] > '9')) return Val{-1, -1};
    return Val{atoi(e.c_str()), atoi(e.c_str() + 6)};
  }
  static int state(const T &) { return ES_ALIVE; }
  template <class V> static T &emplace_back(V &v, const Val &x) { T t = make(x); return v.emplace_back(t.c_str()); }
  template <class V, class It> static typename V::iterator emplace(V &v, It pos, const Val &x) { T t = make(x); return v.emplace(pos, t.c_str(), t.size()); }
  template <class V, class It> static typename V::iterator emplace_member(V &v, It pos, const T &, int) { return v.end() + 0 * (pos - pos); }
  template <class V> static T &emplace_back_member(V &v, const T &, int) { return v.back(); }
  template <class S> static auto set_emplace(S &s, const Val &x) -> decltype(s.emplace("")) { T t = make(x); return s.emplace(t.c_str()); }
  template <class S, class It> static auto set_emplace_hint(S &s, It h, const Val &x) -> decltype(s.emplace_hint(h, "")) { T t = make(x); return s.emplace_hint(h, t.c_str(), t.size()); }
};

/// std::pair elements: the library computes the relocatability of a pair from its two members.
template <class A, class B>
struct ElemIO<std::pair<A, B>, false> {
  typedef std::pair<A, B> T;
  static const bool hooks = true;
  static const bool arith = false;
  static const int ledgerMode = 1;
  static T make(const Val &x) { return T(std::piecewise_construct, std::forward_as_tuple(x.key, x.pay), std::forward_as_tuple(x.key, x.pay)); }
  static Val val(const T &e) {
    if (e.first.k() != e.second.k() || e.first.p() != e.second.p()) return Val{-3, -3};
    return Val{e.second.k(), e.second.p()};
  }
  static int state(const T &e) {
    int a = A::state_of(e.first), b = B::state_of(e.second);
    return a == ES_ALIVE ? b : a;
  }
  template <class V> static T &emplace_back(V &v, const Val &x) {
    return v.emplace_back(std::piecewise_construct, std::forward_as_tuple(x.key, x.pay), std::forward_as_tuple(x.key, x.pay));
  }
  template <class V, class It> static typename V::iterator emplace(V &v, It pos, const Val &x) {
    return v.emplace(pos, std::piecewise_construct, std::forward_as_tuple(x.key, x.pay), std::forward_as_tuple(x.key, x.pay));
  }
  template <class V, class It> static typename V::iterator emplace_member(V &v, It pos, const T &src, int pay) {
    return v.emplace(pos, std::piecewise_construct, std::forward_as_tuple(src.first.key_, pay), std::forward_as_tuple(src.second.key_, pay));
  }
  template <class V> static T &emplace_back_member(V &v, const T &src, int pay) {
    return v.emplace_back(std::piecewise_construct, std::forward_as_tuple(src.first.key_, pay), std::forward_as_tuple(src.second.key_, pay));
  }
};

/// A container of the library as element type: an inline SmallVector holding one inner element (or none for the value (0, 0)).
/// Whether the outer vector may move it by raw byte copy is decided by the library's own trait for it.  The inner element is an
/// identity-recording type (ledger) or a std::string (short-string self-pointer: a wrongly byte-copied one reads another value).
template <class E, class Al, class Sz, class Pol, Sz N>
struct ElemIO<amc::Vector<E, Al, Sz, Pol, N>, false> {
  typedef amc::Vector<E, Al, Sz, Pol, N> T;
  typedef ElemIO<E> In;
  static const bool hooks = In::hooks;
  static const bool arith = true;  // no member-argument emplace forms
  static const int ledgerMode = In::hooks ? 2 : 0;
  static T make(const Val &x) {
    T t;
    if (x.key != 0 || x.pay != 0) t.push_back(In::make(x));
    return t;
  }
  static Val val(const T &e) {
    if (e.empty()) return Val{0, 0};
    if (e.size() != 1) return Val{-4, -4};
    return In::val(e.front());
  }
  static int state(const T &e) { return e.empty() ? (int)ES_ALIVE : In::state(e.front()); }
  template <class V> static T &emplace_back(V &v, const Val &x) { return (x.key || x.pay) ? v.emplace_back((Sz)1, In::make(x)) : v.emplace_back(); }
  template <class V, class It> static typename V::iterator emplace(V &v, It pos, const Val &x) { return (x.key || x.pay) ? v.emplace(pos, (Sz)1, In::make(x)) : v.emplace(pos); }
  template <class V, class It> static typename V::iterator emplace_member(V &v, It pos, const T &, int) { return v.end() + 0 * (pos - pos); }
  template <class V> static T &emplace_back_member(V &v, const T &, int) { return v.back(); }
};

template <class V>
struct IsUnchecked : std::false_type {};
template <class T, class S, S N>
struct IsUnchecked<amc::Vector<T, amc::vec::EmptyAlloc, S, amc::vec::UncheckedGrowingPolicy, N>> : std::true_type {};

template <class V>
struct VecAdapter {
  typedef typename V::value_type T;
  typedef typename V::size_type S;
  typedef typename V::allocator_type A;

  static V &ref(void *p) { return *static_cast<V *>(p); }
  static const V &cref(const void *p) { return *static_cast<const V *>(p); }

  static void construct(void *at) { ::new (at) V(); }
  static void destroy(void *at) { ref(at).~V(); }

  static VecObs observe(const void *p) {
    const V &v = cref(p);
    VecObs o;
    o.size = (size_t)v.size(); o.capacity = (size_t)v.capacity(); o.maxSize = (size_t)v.max_size();
    o.data = v.data();
    const char *d = (const char *)v.data();
    o.inside = d >= (const char *)p && d < (const char *)p + sizeof(V);
    return o;
  }

  static bool snapshot(const void *p, std::vector<Val> &out, std::string &err) {
    const V &v = cref(p);
    out.clear();
    size_t n = (size_t)v.size();
    if (n > (size_t)v.capacity() || n > (1u << 23)) { err = "size() exceeds capacity()"; return false; }
    const T *d = v.data();
    for (size_t i = 0; i < n; ++i) {
      int st = ElemIO<T>::state(d[i]);
      if (st != ES_ALIVE) {
        char m[96];
        snprintf(m, sizeof m, "visible element [%zu] of %zu is %s", i, n, estate_name(st));
        err = m;
        return false;
      }
      out.push_back(ElemIO<T>::val(d[i]));
    }
    return true;
  }

  // ---- range sources
  template <class F>
  static void with_range(const IOp &op, Result &res, F &&f) {
    std::vector<T> src;
    src.reserve(op.vals.size());
    for (const Val &x : op.vals) src.push_back(ElemIO<T>::make(x));
    switch (op.stream) {
      default:
      case SRC_PTR: { const T *b = src.data(); f(b, b + src.size()); } break;
      case SRC_RA: { std::deque<T> dq(src.begin(), src.end()); f(dq.cbegin(), dq.cend()); } break;
      case SRC_BIDI: { std::list<T> l(src.begin(), src.end()); f(l.cbegin(), l.cend()); } break;
      case SRC_FWD: { std::forward_list<T> l(src.begin(), src.end()); f(l.cbegin(), l.cend()); } break;
      case SRC_MOVE: { T *b = src.data(); f(std::make_move_iterator(b), std::make_move_iterator(b + src.size())); } break;
      case SRC_INPUT: {
        InputStream<T> st(src);
        struct Fin {  // record stream misuse even if the call throws
          InputStream<T> &s; Result &r;
          ~Fin() { r.streamReadAfterEof = s.stats.readsAfterEof != 0; r.streamReread = s.stats.rereads != 0; }
        } fin{st, res};
        f(InputIt<T>(&st), InputIt<T>());
      } break;
    }
  }
  template <class F>
  static void with_il(const IOp &op, F &&f) {
    const std::vector<Val> &x = op.vals;
    switch (x.size()) {
      case 0: { std::initializer_list<T> il{}; f(il); } break;
      case 1: { T a = ElemIO<T>::make(x[0]); std::initializer_list<T> il{a}; f(il); } break;
      case 2: { T a = ElemIO<T>::make(x[0]), b = ElemIO<T>::make(x[1]); std::initializer_list<T> il{a, b}; f(il); } break;
      default: { T a = ElemIO<T>::make(x[0]), b = ElemIO<T>::make(x[1]), c = ElemIO<T>::make(x[2]); std::initializer_list<T> il{a, b, c}; f(il); } break;
    }
  }

  static void apply(void *self, void *partner, const IOp &op, Result &res) {
    V &v = ref(self);
    res.outcome = OUT_RETURNED;
    try {
      run(v, partner ? static_cast<V *>(partner) : nullptr, self, op, res);
    } catch (SimFault &) {
      res.outcome = OUT_THREW_FAULT;
    } catch (std::bad_alloc &) {
      res.outcome = OUT_THREW_BADALLOC;
    } catch (std::out_of_range &e) {
      res.outcome = OUT_THREW_LIMIT_OOR; res.exWhat = e.what();
    } catch (std::overflow_error &e) {
      res.outcome = OUT_THREW_LIMIT_OVF; res.exWhat = e.what();
    } catch (std::exception &e) {
      res.outcome = OUT_THREW_OTHER; res.exWhat = e.what();
    } catch (...) {
      res.outcome = OUT_THREW_OTHER; res.exWhat = "unknown exception";
    }
    G.armed = false;
  }

  // re-construct the object in its slot through `ctor`; on failure leave a default-constructed object
  template <class F>
  static void reconstruct(void *self, F &&ctor) {
    ref(self).~V();
    try {
      Arm a;
      ctor(self);
    } catch (...) {
      G.armed = false;
      ::new (self) V();
      throw;
    }
  }

  static void run(V &v, V *w, void *self, const IOp &op, Result &res) {
    const std::vector<Val> &x = op.vals;
    switch (op.kind) {
      case V_PUSH_COPY: { T t = ElemIO<T>::make(x[0]); Arm a; v.push_back(t); } break;
      case V_PUSH_MOVE: { T t = ElemIO<T>::make(x[0]); Arm a; v.push_back(std::move(t)); } break;
      case V_EMPLACE_BACK: {
        Arm a;
        T &r = ElemIO<T>::emplace_back(v, x[0]);
        res.refOk = (&r == v.data() + (v.size() - 1));
      } break;
      case V_INSERT_COPY: { T t = ElemIO<T>::make(x[0]); Arm a; auto it = v.insert(v.begin() + op.pos, t); res.retIndex = it - v.begin(); } break;
      case V_INSERT_MOVE: { T t = ElemIO<T>::make(x[0]); Arm a; auto it = v.insert(v.begin() + op.pos, std::move(t)); res.retIndex = it - v.begin(); } break;
      case V_INSERT_N: { T t = ElemIO<T>::make(x[0]); Arm a; auto it = v.insert(v.begin() + op.pos, (S)op.count, t); res.retIndex = it - v.begin(); } break;
      case V_INSERT_RANGE:
        with_range(op, res, [&](auto f, auto l) { Arm a; auto it = v.insert(v.begin() + op.pos, f, l); res.retIndex = it - v.begin(); });
        break;
      case V_INSERT_IL:
        with_il(op, [&](std::initializer_list<T> il) { Arm a; auto it = v.insert(v.begin() + op.pos, il); res.retIndex = it - v.begin(); });
        break;
      case V_EMPLACE: { Arm a; auto it = ElemIO<T>::emplace(v, v.begin() + op.pos, x[0]); res.retIndex = it - v.begin(); } break;
      case V_ERASE1: { Arm a; auto it = v.erase(v.begin() + op.pos); res.retIndex = it - v.begin(); } break;
      case V_ERASE_RANGE: { Arm a; auto it = v.erase(v.begin() + op.pos, v.begin() + op.pos2); res.retIndex = it - v.begin(); } break;
      case V_POP_BACK: { Arm a; v.pop_back(); } break;
      case V_POP_BACK_VAL: {
#ifdef AMC_NONSTD_FEATURES
        G.armed = true;
        T r = v.pop_back_val();
        G.armed = false;
        res.hasVal = true; res.val = ElemIO<T>::val(r);
#endif
      } break;
      case V_RESIZE: { Arm a; v.resize((S)op.count); } break;
      case V_RESIZE_V: { T t = ElemIO<T>::make(x[0]); Arm a; v.resize((S)op.count, t); } break;
      case V_CLEAR: { Arm a; v.clear(); } break;
      case V_RESERVE: { Arm a; v.reserve((S)op.count); } break;
      case V_SHRINK: { Arm a; v.shrink_to_fit(); } break;
      case V_ASSIGN_N: { T t = ElemIO<T>::make(x[0]); Arm a; v.assign((S)op.count, t); } break;
      case V_ASSIGN_RANGE:
        with_range(op, res, [&](auto f, auto l) { Arm a; v.assign(f, l); });
        break;
      case V_ASSIGN_IL:
        with_il(op, [&](std::initializer_list<T> il) { Arm a; if (op.variant & 1) v = il; else v.assign(il); });
        break;
#ifdef AMC_NONSTD_FEATURES
      case V_APPEND_RANGE:
        with_range(op, res, [&](auto f, auto l) { Arm a; v.append(f, l); });
        break;
      case V_APPEND_N: { Arm a; v.append((S)op.count); } break;
      case V_APPEND_NV: { T t = ElemIO<T>::make(x[0]); Arm a; v.append((S)op.count, t); } break;
      case V_APPEND_IL:
        with_il(op, [&](std::initializer_list<T> il) { Arm a; v.append(il); });
        break;
#endif
      case V_COPY_ASSIGN: { Arm a; v = *w; } break;
      case V_MOVE_ASSIGN: { Arm a; v = std::move(*w); } break;
      case V_SWAP: {
        Arm a;
        if (op.variant & 1) { using std::swap; swap(v, *w); } else v.swap(*w);
      } break;
      case V_CTOR_DEFAULT:
        reconstruct(self, [&](void *at) { if (op.variant & 1) ::new (at) V(A()); else ::new (at) V(); });
        break;
      case V_CTOR_COPY:
        reconstruct(self, [&](void *at) { if (op.variant & 1) ::new (at) V(*w, A()); else ::new (at) V(*w); });
        break;
      case V_CTOR_MOVE:
        reconstruct(self, [&](void *at) { if (op.variant & 1) ::new (at) V(std::move(*w), A()); else ::new (at) V(std::move(*w)); });
        break;
      case V_CTOR_N:
        reconstruct(self, [&](void *at) { if (op.variant & 1) ::new (at) V((S)op.count, A()); else ::new (at) V((S)op.count); });
        break;
      case V_CTOR_NV: {
        T t = ElemIO<T>::make(x[0]);
        reconstruct(self, [&](void *at) { if (op.variant & 1) ::new (at) V((S)op.count, t, A()); else ::new (at) V((S)op.count, t); });
      } break;
      case V_CTOR_RANGE:
        with_range(op, res, [&](auto f, auto l) {
          reconstruct(self, [&](void *at) { if (op.variant & 1) ::new (at) V(f, l, A()); else ::new (at) V(f, l); });
        });
        break;
      case V_CTOR_IL:
        with_il(op, [&](std::initializer_list<T> il) {
          reconstruct(self, [&](void *at) { if (op.variant & 1) ::new (at) V(il, A()); else ::new (at) V(il); });
        });
        break;
      case V_COMPARE: {
        const V &a = v; const V &b = *w;
        Arm arm;
        unsigned bits = 0;
        if (a == b) bits |= 1;
        if (a != b) bits |= 2;
        if (a < b) bits |= 4;
        if (a <= b) bits |= 8;
        if (a > b) bits |= 16;
        if (a >= b) bits |= 32;
        res.bits = bits;
      } break;
      case V_ACCESS: {
        res.reads.reserve(16);
        Arm arm;
        const V &cv = v;
        size_t i = op.pos;
        res.reads.push_back(ElemIO<T>::val(v.at((S)i)));
        res.reads.push_back(ElemIO<T>::val(cv.at((S)i)));
        res.reads.push_back(ElemIO<T>::val(v[(S)i]));
        res.reads.push_back(ElemIO<T>::val(cv[(S)i]));
        res.reads.push_back(ElemIO<T>::val(v.front()));
        res.reads.push_back(ElemIO<T>::val(cv.back()));
        res.reads.push_back(ElemIO<T>::val(v.data()[i]));
        res.reads.push_back(ElemIO<T>::val(*(cv.begin() + i)));
        res.reads.push_back(ElemIO<T>::val(*(cv.cend() - 1)));
        res.reads.push_back(ElemIO<T>::val(*cv.rbegin()));
        res.reads.push_back(ElemIO<T>::val(*(v.rend() - 1)));
        res.reads.push_back(ElemIO<T>::val(*(cv.crbegin() + (cv.size() - 1 - i))));
        res.bits = (unsigned)(cv.end() - cv.begin()) == (unsigned)cv.size() ? 1u : 0u;
        if (cv.empty()) res.bits |= 2;
      } break;
      case V_AT_OOR: {
        Arm arm;
        const V &cv = v;
        if (op.variant & 1) (void)cv.at((S)op.pos); else (void)v.at((S)op.pos);
      } break;
      case V_ALIAS_PUSH: { Arm a; v.push_back(v[(S)op.srcIdx]); } break;
      case V_ALIAS_INSERT: { Arm a; auto it = v.insert(v.begin() + op.pos, v[(S)op.srcIdx]); res.retIndex = it - v.begin(); } break;
      case V_ALIAS_INSERT_N: { Arm a; auto it = v.insert(v.begin() + op.pos, (S)op.count, v[(S)op.srcIdx]); res.retIndex = it - v.begin(); } break;
      case V_ALIAS_EMPLACE: { Arm a; auto it = v.emplace(v.begin() + op.pos, v[(S)op.srcIdx]); res.retIndex = it - v.begin(); } break;
      case V_ALIAS_EMPLACE_ARG: { if (ElemIO<T>::arith) { res.outcome = OUT_NOOP; break; } Arm a; auto it = ElemIO<T>::emplace_member(v, v.begin() + op.pos, v[(S)op.srcIdx], x[0].pay); res.retIndex = it - v.begin(); } break;
      case V_ALIAS_EMPLACE_BACK: { Arm a; T &r = v.emplace_back(v[(S)op.srcIdx]); res.refOk = (&r == v.data() + (v.size() - 1)); } break;
      case V_ALIAS_EMPLACE_BACK_ARG: { if (ElemIO<T>::arith) { res.outcome = OUT_NOOP; break; } Arm a; T &r = ElemIO<T>::emplace_back_member(v, v[(S)op.srcIdx], x[0].pay); res.refOk = (&r == v.data() + (v.size() - 1)); } break;
      case V_ALIAS_RESIZE: { Arm a; v.resize((S)op.count, v[(S)op.srcIdx]); } break;
      case V_ALIAS_ASSIGN: { Arm a; v.assign((S)op.count, v[(S)op.srcIdx]); } break;
#ifdef AMC_NONSTD_FEATURES
      case V_ALIAS_APPEND: { Arm a; v.append((S)op.count, v[(S)op.srcIdx]); } break;
#endif
      case V_FILL_TO_N: case V_FILL_TO_CAP: case V_FILL_TO_LIMIT_MINUS: case V_GROW_PAST_N:
        for (size_t i = 0; i < x.size(); ++i) { T t = ElemIO<T>::make(x[i]); Arm a; v.push_back(std::move(t)); }
        break;
      case V_DRAIN:
        if (op.variant % 3 == 0) { Arm a; while (!v.empty()) v.pop_back(); }
        else if (op.variant % 3 == 1) { Arm a; while (!v.empty()) v.erase(v.begin()); }
        else { Arm a; v.erase(v.begin(), v.end()); }
        break;
      case V_APPEND_LOOP: {
        uint64_t moves0 = G.opElemEv[EV_MOVE_CTOR];
        for (size_t i = 0; i < x.size(); ++i) {
          unsigned ev0 = G.opAllocCalls + G.opReallocCalls; uint64_t inpl0 = G.reallocInPlace; size_t sz0 = (size_t)v.size();
          size_t cap0 = (size_t)v.capacity();
          g_reallocExpect.known = true; g_reallocExpect.n = 1; g_reallocExpect.sizes[0] = sz0;
          unsigned how = op.variant % 8 == 0 ? (unsigned)(i % 3) : op.variant % 8 + 2;  // one method per loop, or the push/emplace mix
          switch (how) {
            case 0: { T t = ElemIO<T>::make(x[i]); Arm a; v.push_back(std::move(t)); } break;
            case 1: { Arm a; ElemIO<T>::emplace_back(v, x[i]); } break;
            case 2: { T t = ElemIO<T>::make(x[i]); Arm a; v.push_back(t); } break;
            case 3: { Arm a; v.resize((S)(sz0 + 1)); } break;                                       // value-initialised element
            case 4: { T t = ElemIO<T>::make(x[i]); Arm a; v.resize((S)(sz0 + 1), t); } break;
            case 5: { T t = ElemIO<T>::make(x[i]); Arm a; v.insert(v.end(), t); } break;
            case 6: { Arm a; ElemIO<T>::emplace(v, v.end(), x[i]); } break;
            case 7: { T t = ElemIO<T>::make(x[i]); Arm a; v.insert(v.end(), (S)1, t); } break;
#ifdef AMC_NONSTD_FEATURES
            case 8: { T t = ElemIO<T>::make(x[i]); Arm a; v.append((S)1, t); } break;
            default: { T t = ElemIO<T>::make(x[i]); const T *b = &t; Arm a; v.append(b, b + 1); } break;
#else
            default: { T t = ElemIO<T>::make(x[i]); Arm a; v.push_back(t); } break;
#endif
          }
          if (G.opAllocCalls + G.opReallocCalls != ev0) {
            ++res.growEvents;
            if (G.reallocInPlace == inpl0) res.relocs += sz0;
            // every single growth step is by the constant factor (unless the size_type limits it)
            size_t cap1 = (size_t)v.capacity();
            uint64_t want = (3ull * cap0) / 2;
            if (want > (uint64_t)std::numeric_limits<S>::max()) want = (uint64_t)std::numeric_limits<S>::max();
            if (cap0 && cap1 > cap0 && cap1 < want && !res.growBadFrom) { res.growBadFrom = cap0; res.growBadTo = cap1; }
          }
          ++res.appended;
        }
        res.bits = (unsigned)(G.opElemEv[EV_MOVE_CTOR] - moves0);
      } break;
#ifdef AMC_CXX20
      case V_ERASE_VALUE: { T t = ElemIO<T>::make(x[0]); Arm a; res.retCount = (long)erase(v, t); } break;
      case V_ERASE_IF: { int m = op.mod; Arm a; res.retCount = (long)erase_if(v, [m](const T &e) { return ElemIO<T>::val(e).key % m == 0; }); } break;
#endif
      default:
        res.outcome = OUT_NOOP;
        break;
    }
  }

  static VecType *make_type(const char *name) {
    VecType *t = new VecType();
    t->name = name;
    t->N = (unsigned)V::kInlineCapacity;
    bool fixed = std::is_same<A, amc::vec::EmptyAlloc>::value;
    t->flavour = fixed ? FL_FIXED : (t->N ? FL_SMALL : FL_STD);
    t->limit = fixed ? (uint64_t)V::kInlineCapacity : (uint64_t)std::numeric_limits<S>::max();
    t->limitThrows = !IsUnchecked<V>::value;
    t->objSize = sizeof(V); t->objAlign = alignof(V); t->elemSize = sizeof(T);
    t->elemTriv = std::is_trivially_copyable<T>::value;
    t->elemTR = amc::is_trivially_relocatable<T>::value;
    t->elemHooks = ElemIO<T>::hooks;
    t->elemArith = ElemIO<T>::arith;
    t->ledgerMode = ElemIO<T>::ledgerMode;
    t->elemNoexceptMove = std::is_nothrow_move_constructible<T>::value;
    t->claimsTR = amc::is_trivially_relocatable<V>::value;
    t->sizeSigned = std::is_signed<S>::value;
    t->sizeTypeId = (unsigned)sizeof(S) * 2 + (std::is_signed<S>::value ? 1 : 0);
    t->allocDomain = AllocInfo<A>::domain;
    t->hasRealloc = AllocInfo<A>::hasRealloc && t->elemTR;
#ifdef AMC_NONSTD_FEATURES
    t->hasExtras = true;
#else
    t->hasExtras = false;
#endif
    t->construct = &construct; t->destroy = &destroy; t->observe = &observe; t->snapshot = &snapshot; t->apply = &apply;
    return t;
  }
};

// ---- cross-type operations
extern unsigned g_pairVariant;  // overload selector of the next cross-type operation (bit 0: the free swap(a, b) where one exists)
template <class A, class B>
auto free_swap_or_swap2(A &a, B &b, int) -> decltype(swap(a, b), void()) {
  if (g_pairVariant & 1) swap(a, b);  // found by ADL: the library's free swap between vectors that differ only in their inline capacity
  else a.swap2(b);
}
template <class A, class B>
void free_swap_or_swap2(A &a, B &b, long) { a.swap2(b); }

template <class A, class B>
struct VecPairAdapter {
  static void swap2(void *a, void *b, Result &res) {
#ifdef AMC_NONSTD_FEATURES
    res.outcome = OUT_RETURNED;
    try {
      Arm arm;
      free_swap_or_swap2(*static_cast<A *>(a), *static_cast<B *>(b), 0);
    } catch (SimFault &) { res.outcome = OUT_THREW_FAULT;
    } catch (std::bad_alloc &) { res.outcome = OUT_THREW_BADALLOC;
    } catch (std::out_of_range &e) { res.outcome = OUT_THREW_LIMIT_OOR; res.exWhat = e.what();
    } catch (std::overflow_error &e) { res.outcome = OUT_THREW_LIMIT_OVF; res.exWhat = e.what();
    } catch (...) { res.outcome = OUT_THREW_OTHER; }
    G.armed = false;
#else
    (void)a; (void)b; res.outcome = OUT_NOOP;
#endif
  }
  template <class AA = A>
  static typename std::enable_if<std::is_constructible<AA, B &&>::value && !std::is_same<AA, B>::value>::type ctor_from(void *a, void *b, Result &res) {
    res.outcome = OUT_RETURNED;
    static_cast<A *>(a)->~A();
    try {
      Arm arm;
      ::new (a) A(std::move(*static_cast<B *>(b)));
    } catch (...) {
      G.armed = false;
      ::new (a) A();
      res.outcome = OUT_THREW_OTHER;
    }
    G.armed = false;
  }
  static VecPair make() {
    VecPair p;
    p.swap2 = &swap2;
    p.ctorFromVec = pick_ctor<A>(0);
    return p;
  }
  template <class AA>
  static auto pick_ctor(int) -> typename std::enable_if<std::is_constructible<AA, B &&>::value && !std::is_same<AA, B>::value &&
                                                            (AA::kInlineCapacity > 0) && (B::kInlineCapacity == 0) &&
                                                            !std::is_same<typename B::allocator_type, amc::vec::EmptyAlloc>::value,
                                                        void (*)(void *, void *, Result &)>::type {
    return &ctor_from<AA>;
  }
  template <class AA>
  static void (*pick_ctor(...))(void *, void *, Result &) { return nullptr; }
};

template <class... Vs>
struct FamilyBuilder {
  template <class A>
  static void row(std::vector<VecPair> &out) {
    int expand[] = {0, (out.push_back(VecPairAdapter<A, Vs>::make()), 0)...};  // (no fold expressions: the vector engine also builds as C++14)
    (void)expand;
  }
  static VecFamily *build(const char *name, const char *elem, std::initializer_list<const char *> typeNames) {
    VecFamily *f = new VecFamily();
    f->name = name; f->elem = elem;
    auto it = typeNames.begin();
    { int expand[] = {0, (f->types.push_back(VecAdapter<Vs>::make_type(*it++)), 0)...}; (void)expand; }
    f->pairs.resize(sizeof...(Vs));
    size_t i = 0;
    { int expand[] = {0, (row<Vs>(f->pairs[i++]), 0)...}; (void)expand; }
    return f;
  }
};

}  // namespace sim
