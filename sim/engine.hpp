// Engine abstraction used by the worker (main.cpp): one per container side (vec, set).
#pragma once
#include <string>
#include <vector>

#include "plan.hpp"
#include "vec_interp.hpp"

namespace sim {

struct Engine {
  virtual ~Engine() {}
  virtual const char *name() const = 0;
  virtual std::vector<std::string> families() const = 0;
  virtual bool has_family(const std::string &f) const = 0;
  virtual std::vector<std::string> profiles() const = 0;
  virtual bool gen(const std::string &family, const std::string &profile, uint64_t runSeed, Plan &out) const = 0;
  virtual bool gen_scenario(const std::string &family, uint64_t runSeed, Plan &out) const = 0;
  virtual RunOut run(const Plan &p, Stats *stats, bool keepTranscript) const = 0;
  virtual std::string signature(const Plan &p, const Violation &v) const = 0;
  virtual const char *op_name(int k) const = 0;
  virtual int op_kind(const std::string &n) const = 0;
  virtual std::string describe_family(const std::string &family) const = 0;  // JSON fragment
};

Engine *vec_engine();
Engine *set_engine();  // may return null if the set engine is not linked

}  // namespace sim
