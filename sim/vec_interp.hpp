// Vector engine: plan generation, execution with all oracles armed, statistics.
#pragma once
#include <map>
#include <set>
#include <string>
#include <vector>

#include "plan.hpp"
#include "vec.hpp"

namespace sim {

struct Stats {
  uint64_t runs = 0, ops = 0, noops = 0, allocEvents = 0, elemEvents = 0, cmpCalls = 0;
  uint64_t faultsAttached = 0, faultsFiredElem = 0, faultsFiredAlloc = 0, limitThrows = 0;
  uint64_t reallocMoved = 0, reallocInPlace = 0, blockReused = 0;
  std::map<std::string, uint64_t> probes;          // "this rare condition was hit" counters
  std::map<int, std::set<uint64_t>> cells;         // per property: distinct coverage cells
  std::set<uint64_t> hashes;                       // distinct transcript hashes (bounded)
  std::map<std::string, uint64_t> opKinds;         // executed operations per kind
  std::map<std::string, uint64_t> firedByOp;       // fired faults per operation kind
  void probe(const char *name, uint64_t n = 1) { probes[name] += n; }
  void cell(int prop, uint64_t c) { cells[prop].insert(c); }
};

struct RunOut {
  Violation viol;
  uint64_t hash = 0;
  unsigned opsExecuted = 0;
  bool relocExecuted = false;
  std::string transcript;
};

struct VecProfile {
  std::string name;
  unsigned w[V_NKINDS];
  unsigned meanLen = 25, maxLen = 200, minLen = 1;
  unsigned faultPermille = 0;   // probability that an operation carries an attached fault
  unsigned overshootPct = 30;   // chance to keep a count that exceeds a reachable limit
  unsigned room = 40;           // soft size cap for types whose limit is not reachable
  unsigned bigAppend = 40;      // max n of APPEND_LOOP
  unsigned smallBias = 0;       // percent of runs whose counts are biased to stay <= N
  bool swarm = true;            // disable a random subset of kinds per run
};

const VecProfile *vec_profile(const std::string &name);
std::vector<std::string> vec_profile_names();

Plan gen_vec_plan(const VecFamily &fam, const VecProfile &prof, uint64_t runSeed);
/// C09 mode A: prefix + one final operation (the last op of the plan); faults are attached by the caller.
Plan gen_vec_scenario(const VecFamily &fam, uint64_t runSeed);
/// C10: micro history (build, optional spare capacity, one alias operation)
RunOut run_vec_plan(const Plan &plan, const VecFamily &fam, Stats *stats, bool keepTranscript);

// signature of a plan for known-findings matching
std::string vec_plan_signature(const Plan &plan, const VecFamily &fam, const Violation &v);

}  // namespace sim
