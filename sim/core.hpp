// Core of the deterministic simulator: PRNG, world state (violation sink, fault arming, event counters,
// transcript hash).  Single-threaded; everything a run depends on is derived from the run seed.
#pragma once
#include <cstdint>
#include <cstdio>
#include <cstring>
#include <string>
#include <vector>

namespace sim {

// ------------------------------------------------------------------------------------------------ PRNG
inline uint64_t splitmix64(uint64_t &s) {
  uint64_t z = (s += 0x9e3779b97f4a7c15ULL);
  z = (z ^ (z >> 30)) * 0xbf58476d1ce4e5b9ULL;
  z = (z ^ (z >> 27)) * 0x94d049bb133111ebULL;
  return z ^ (z >> 31);
}
inline uint64_t mix64(uint64_t a, uint64_t b) {
  uint64_t s = a * 0x9e3779b97f4a7c15ULL + b + 0x632be59bd9b4e019ULL;
  uint64_t r = splitmix64(s);
  s ^= b * 0xd1342543de82ef95ULL;
  return r ^ splitmix64(s);
}
struct Rng {  // xoshiro256**
  uint64_t s[4];
  explicit Rng(uint64_t seed) {
    uint64_t x = seed;
    for (int i = 0; i < 4; ++i) s[i] = splitmix64(x);
  }
  static uint64_t rotl(uint64_t x, int k) { return (x << k) | (x >> (64 - k)); }
  uint64_t next() {
    uint64_t r = rotl(s[1] * 5, 7) * 9, t = s[1] << 17;
    s[2] ^= s[0]; s[3] ^= s[1]; s[1] ^= s[2]; s[0] ^= s[3]; s[2] ^= t; s[3] = rotl(s[3], 45);
    return r;
  }
  unsigned below(unsigned n) { return n ? unsigned(next() % n) : 0u; }
  bool chance(unsigned num, unsigned den) { return below(den) < num; }
  unsigned range(unsigned lo, unsigned hi) { return lo + below(hi - lo + 1); }  // inclusive
};

// ------------------------------------------------------------------------------------------------ values
struct Val {
  int key, pay;
  bool operator==(const Val &o) const { return key == o.key && pay == o.pay; }
  bool operator!=(const Val &o) const { return !(*this == o); }
  bool operator<(const Val &o) const { return key < o.key || (key == o.key && pay < o.pay); }
};

// ------------------------------------------------------------------------------------------------ properties
typedef uint32_t PropMask;
inline PropMask P(int c) { return 1u << (c - 1); }
inline std::string props_str(PropMask m) {
  std::string s;
  for (int c = 1; c <= 20; ++c)
    if (m & P(c)) {
      char b[8];
      snprintf(b, sizeof b, "%sC%02d", s.empty() ? "" : ",", c);
      s += b;
    }
  return s.empty() ? "-" : s;
}

enum VKind {
  VK_NONE = 0,
  VK_MODEL,     // observable result differs from the reference model
  VK_ELEM,      // element life-cycle ledger
  VK_ALLOC,     // allocator ledger
  VK_CANARY,    // write outside a block
  VK_INLINE,    // inline-storage promise
  VK_CAPACITY,  // capacity contract / address stability
  VK_LIMIT,     // capacity-limit error oracle
  VK_FAULT,     // exception-safety oracle after an injected fault
  VK_GROWTH,    // geometric growth bounds
  VK_CMPCOUNT,  // comparator budget
  VK_CMPOBJ,    // default-constructed comparator used
  VK_ITER,      // iterator contract
  VK_MEMALGO,   // memory algorithm oracle
  VK_CRASH,     // signal / terminate / sanitizer abort
  VK_HANG,      // watchdog
  VK_INTERNAL,  // harness inconsistency (never a property violation)
  VK_COUNT
};
inline const char *vkind_name(int k) {
  static const char *n[] = {"NONE", "MODEL", "ELEM", "ALLOC", "CANARY", "INLINE", "CAPACITY", "LIMIT", "FAULT",
                            "GROWTH", "CMPCOUNT", "CMPOBJ", "ITER", "MEMALGO", "CRASH", "HANG", "INTERNAL"};
  return (k >= 0 && k < VK_COUNT) ? n[k] : "?";
}
inline int vkind_from_name(const std::string &s) {
  for (int k = 0; k < VK_COUNT; ++k)
    if (s == vkind_name(k)) return k;
  return VK_NONE;
}

struct SimFault {};  // the injected element failure

enum FaultKind { F_NONE = 0, F_ELEM = 1, F_ALLOC = 2 };

// throwing-capable element events
enum ElemEv { EV_VALUE_CTOR = 0, EV_DEFAULT_CTOR, EV_COPY_CTOR, EV_COPY_ASSIGN, EV_MOVE_CTOR, EV_MOVE_ASSIGN, EV_DTOR, EV_NEV };

struct Violation {
  int kind = VK_NONE;
  std::string what;
  PropMask props = 0;
  int opIndex = -1;
  int opKind = -1;
  bool set() const { return kind != VK_NONE; }
};

// ------------------------------------------------------------------------------------------------ world
struct World {
  // --- violation sink (first one wins)
  Violation viol;
  // --- context of the operation being executed (set by the interpreter)
  int opIndex = -1, opKind = -1, opStableId = 0;
  const char *opName = "";
  PropMask baseProps = 0;  // property of the container family (C01 / C03 / C04)
  PropMask ctxProps = 0;   // extra properties implied by the operation context (alias, swap2, limit, fault fired)
  bool inVecOp = false;    // true while a *vector* operation of amc executes (self-move-assign is then a violation)
  // --- arming: true exactly while an amc call of the current operation is on the stack
  bool armed = false;
  int faultKind = F_NONE;
  int faultCountdown = -1;
  bool faultFired = false;
  int faultFiredKind = 0;
  // --- per-operation event counters (reset by begin_op)
  unsigned opElemThrowPoints = 0, opAllocThrowPoints = 0;
  unsigned opElemEv[EV_NEV] = {0};
  unsigned opAllocCalls = 0, opReallocCalls = 0, opDeallocCalls = 0, opNullDealloc = 0;
  unsigned opGlobalNew = 0;  // global operator new / malloc reached while armed (outside harness code)
  int harnessDepth = 0;      // > 0 while simulator bookkeeping runs inside an armed call
  unsigned opCmpCalls = 0, opPoisonCmpCalls = 0;
  unsigned opCmpBytewise = 0;  // calls on a self-referencing comparator object that was moved by raw byte copy
  unsigned opWatchHits = 0;  // element events inside the watched address range
  uintptr_t watchLo = 0, watchHi = 0;
  uint64_t opRelocElems = 0;  // elements relocated by growth (counted at the allocator seam)
  // --- run totals
  uint64_t totElemEv = 0, totAllocEv = 0, totOps = 0, totCmp = 0;
  uint64_t faultsFiredElem = 0, faultsFiredAlloc = 0;
  uint64_t reallocMoved = 0, reallocInPlace = 0, blockReused = 0;
  // --- environment decisions
  uint64_t envStream = 0;
  unsigned envEventIdx = 0;
  // --- transcript
  uint64_t trHash = 1469598103934665603ULL;
  bool keepTranscript = false;
  std::string transcript;
  std::string allocLog;  // allocator events of the current operation, canonical text

  void reset_run(uint64_t env) {
    *this = World();
    envStream = env;
  }
  void begin_op(int idx, int kind, int stableId, const char *name) {
    opIndex = idx; opKind = kind; opStableId = stableId; opName = name;
    ctxProps = 0; inVecOp = false; armed = false; faultKind = F_NONE; faultCountdown = -1; faultFired = false;
    faultFiredKind = 0;
    opElemThrowPoints = opAllocThrowPoints = 0;
    memset(opElemEv, 0, sizeof opElemEv);
    opAllocCalls = opReallocCalls = opDeallocCalls = opNullDealloc = opGlobalNew = 0;
    opCmpCalls = opPoisonCmpCalls = 0; opCmpBytewise = 0;
    opWatchHits = 0; watchLo = watchHi = 0; opRelocElems = 0;
    envEventIdx = 0; allocLog.clear();
    ++totOps;
  }
  // deterministic environment decision for the idx-th environment event of the current operation
  uint64_t env_decision() { return mix64(envStream, (uint64_t(uint32_t(opStableId)) << 20) ^ (envEventIdx++)); }

  void violate(int kind, PropMask props, const std::string &what) {
    if (viol.set()) {
      if (viol.opIndex == opIndex && kind != VK_INTERNAL) viol.props |= props;  // a second monitor firing on the same step implicates its property too
      return;
    }
    ++harnessDepth;
    viol.kind = kind; viol.props = props; viol.what = what; viol.opIndex = opIndex; viol.opKind = opKind;
    --harnessDepth;
  }
  // violation attributed to `own` plus the operation context
  void violate_ctx(int kind, PropMask own, const std::string &what) { violate(kind, own | ctxProps, what); }

  void tr(const char *line) {
    for (const char *p = line; *p; ++p) { trHash ^= (unsigned char)*p; trHash *= 1099511628211ULL; }
    trHash ^= '\n'; trHash *= 1099511628211ULL;
    if (keepTranscript) { transcript += line; transcript += '\n'; }
  }
  void tr(const std::string &s) { tr(s.c_str()); }

  // --- fault points
  inline void elem_throw_point(int) {
    if (!armed) return;
    ++opElemThrowPoints;
    if (faultKind == F_ELEM && faultCountdown >= 0 && faultCountdown-- == 0) {
      faultFired = true; faultFiredKind = F_ELEM; ++faultsFiredElem;
      ctxProps |= P(9);  // from here on the operation is being judged on its exception safety (also seen by the crash handlers)
      throw SimFault();
    }
  }
  inline void elem_event(int ev, const void *addr, const void *addr2 = nullptr) {
    ++opElemEv[ev]; ++totElemEv;
    uintptr_t a = (uintptr_t)addr, b = (uintptr_t)addr2;
    if ((a >= watchLo && a < watchHi) || (b >= watchLo && b < watchHi)) ++opWatchHits;
  }
  // returns true if the allocator call must fail
  inline bool alloc_throw_point() {
    ++totAllocEv;
    if (!armed) return false;
    ++opAllocThrowPoints;
    if (faultKind == F_ALLOC && faultCountdown >= 0 && faultCountdown-- == 0) {
      faultFired = true; faultFiredKind = F_ALLOC; ++faultsFiredAlloc;
      ctxProps |= P(9);
      return true;
    }
    return false;
  }
};

extern World G;

// marks simulator bookkeeping (its own allocations are not the container's)
struct HScope {
  HScope() { ++G.harnessDepth; }
  ~HScope() { --G.harnessDepth; }
};

// RAII arming of exactly the amc call
struct Arm {
  Arm() { G.armed = true; }
  ~Arm() { G.armed = false; }
};

// crash context, readable from signal handlers
struct CrashCtx {
  volatile uint64_t seed;
  volatile int runIndex;
  volatile int active;
  volatile int faultKind, faultK;  // fault attached to the last operation (C09 mode A), 0 if none
  char config[96];
  char profile[48];
};
extern CrashCtx g_crash;

}  // namespace sim
