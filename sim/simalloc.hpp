// Allocator seams over SimHeap.  C++11-compatible.
#pragma once
#include <amc/type_traits.hpp>
#include <cstddef>
#include <new>

#include "simheap.hpp"

namespace sim {

// expectations the harness publishes for the typed reallocate seam
struct ReallocExpect {
  bool known;
  int n;
  size_t sizes[2];  // live-element count of each participating container before the operation
  size_t slack;     // the operation may have added up to this many elements one by one before reallocating
};
extern ReallocExpect g_reallocExpect;

/// "basic allocator" concept of amc (allocate / reallocate / deallocate in bytes); used through the *real*
/// amc::BasicAllocatorWrapper, so the wrapper's own reallocate dispatch runs.
struct SimBasicAlloc {
  void *allocate(size_t n) { return g_heap.allocate(n, 0, 0, DOM_BASIC, false); }
  void *reallocate(void *p, size_t oldSz, size_t newSz) {
    return g_heap.reallocate(p, oldSz, newSz, 0, 0, DOM_BASIC, true, false);
  }
  void deallocate(void *p, size_t n) { g_heap.deallocate(p, n, 0, 0, DOM_BASIC, true); }
};

/// std-like allocator without reallocate; exact-count checking.
template <class T>
struct SimStdAlloc {
  typedef T value_type;
  typedef T *pointer;
  typedef const T *const_pointer;
  typedef T &reference;
  typedef const T &const_reference;
  typedef size_t size_type;
  typedef ptrdiff_t difference_type;
  template <class U>
  struct rebind {
    typedef SimStdAlloc<U> other;
  };
  SimStdAlloc() noexcept {}
  template <class U>
  SimStdAlloc(const SimStdAlloc<U> &) noexcept {}
  T *allocate(size_t n) { return static_cast<T *>(g_heap.allocate(n * sizeof(T), n, sizeof(T), DOM_STD, false)); }
  void deallocate(T *p, size_t n) { g_heap.deallocate(p, n * sizeof(T), n, sizeof(T), DOM_STD, true); }
  template <class U>
  bool operator==(const SimStdAlloc<U> &) const noexcept { return true; }
  template <class U>
  bool operator!=(const SimStdAlloc<U> &) const noexcept { return false; }
};

/// std-like allocator offering the optional 4-argument reallocate of amc.
template <class T>
struct SimReallocAlloc {
  typedef T value_type;
  typedef T *pointer;
  typedef const T *const_pointer;
  typedef T &reference;
  typedef const T &const_reference;
  typedef size_t size_type;
  typedef ptrdiff_t difference_type;
  template <class U>
  struct rebind {
    typedef SimReallocAlloc<U> other;
  };
  SimReallocAlloc() noexcept {}
  template <class U>
  SimReallocAlloc(const SimReallocAlloc<U> &) noexcept {}
  T *allocate(size_t n) { return static_cast<T *>(g_heap.allocate(n * sizeof(T), n, sizeof(T), DOM_REALLOC, false)); }
  void deallocate(T *p, size_t n) { g_heap.deallocate(p, n * sizeof(T), n, sizeof(T), DOM_REALLOC, true); }
  T *reallocate(T *p, size_t oldCapacity, size_t newCapacity, size_t nConstructed) {
    if (!amc::is_trivially_relocatable<T>::value)
      G.violate_ctx(VK_ALLOC, P(6) | P(2), "allocator reallocate() used for an element type that is not trivially relocatable");
    if (p) {
      const SimHeap::Block *b = g_heap.find_live(p);
      if (b && b->count != oldCapacity) {
        char m[160];
        snprintf(m, sizeof m, "reallocate(oldCapacity=%zu) but the block was obtained with capacity %zu", oldCapacity, b->count);
        G.violate_ctx(VK_ALLOC, P(6), m);
      }
      if (g_reallocExpect.known) {
        bool ok = false;
        for (int i = 0; i < g_reallocExpect.n; ++i)
          ok = ok || (nConstructed >= g_reallocExpect.sizes[i] && nConstructed <= g_reallocExpect.sizes[i] + g_reallocExpect.slack);
        if (!ok) {
          char m[160];
          snprintf(m, sizeof m, "reallocate(nConstructedElems=%zu) but the container holds %zu live elements", nConstructed,
                   g_reallocExpect.sizes[0]);
          G.violate_ctx(VK_ALLOC, P(6), m);
        }
      }
      if (nConstructed > oldCapacity || nConstructed > newCapacity)
        G.violate_ctx(VK_ALLOC, P(6), "reallocate: nConstructedElems exceeds old or new capacity");
    }
    return static_cast<T *>(g_heap.reallocate(p, oldCapacity * sizeof(T), newCapacity * sizeof(T), newCapacity, sizeof(T),
                                              DOM_REALLOC, true, false));
  }
  template <class U>
  bool operator==(const SimReallocAlloc<U> &) const noexcept { return true; }
  template <class U>
  bool operator!=(const SimReallocAlloc<U> &) const noexcept { return false; }
};

}  // namespace sim
