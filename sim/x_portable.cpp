// C16: the portable profile.  One source, compiled as C++11/14/17/20 x {extras on, off} x {NDEBUG, assertions} x {-O0, -O2}.
// Every build executes the same seeds; the transcripts (one line per step: operation, arguments, results, size,
// capacity, contents, allocator events, element events) must be byte-identical between builds on the common operation set.
// Each build also checks its own std::vector / std::set reference model.  C++11-compatible.
//
//   portable run  <seedBase> <count> <mask>          print "H <config> <seed> <hash> <model-ok>" per (config, seed)
//   portable dump <config> <seed> <mask>             print the full transcript
//   portable features                                 SFINAE probes of the non-standard extras
// mask: 0 = standard operations only, 1 = also the AMC_NONSTD_FEATURES extras (only valid in a build that has them)
#include <amc/fixedcapacityvector.hpp>
#include <amc/flatset.hpp>
#include <amc/smallvector.hpp>
#include <amc/vector.hpp>
#ifdef AMC_SMALLSET
#include <amc/smallset.hpp>
#endif

#include <signal.h>
#include <unistd.h>

#include <cstdio>
#include <cstdlib>
#include <cstring>
#include <list>
#include <set>
#include <string>
#include <vector>

#include "elems.hpp"
#include "simalloc.hpp"
#include "simcmp.hpp"
#include "simheap.hpp"
#include "streams.hpp"

using namespace sim;
namespace sim {
ElemLedger g_elems;
ReallocExpect g_reallocExpect = {false, 0, {0, 0}, 0};
}  // namespace sim

template <class T> struct AB_ { typedef amc::BasicAllocatorWrapper<T, SimBasicAlloc> type; };

// ------------------------------------------------------------------------------------------------ feature probes
template <class V>
struct HasAppend {
  template <class U> static char test(decltype(std::declval<U &>().append(typename U::size_type(1))) *);
  template <class U> static long test(...);
  static const bool value = sizeof(test<V>(nullptr)) == 1;
};
template <class V>
struct HasPopBackVal {
  template <class U> static char test(decltype(std::declval<U &>().pop_back_val()) *);
  template <class U> static long test(...);
  static const bool value = sizeof(test<V>(nullptr)) == 1;
};
template <class V>
struct HasSwap2 {
  template <class U> static char test(decltype(std::declval<U &>().swap2(std::declval<U &>())) *);
  template <class U> static long test(...);
  static const bool value = sizeof(test<V>(nullptr)) == 1;
};
template <class S>
struct HasSetData {
  template <class U> static char test(decltype(std::declval<const U &>().data()) *);
  template <class U> static long test(...);
  static const bool value = sizeof(test<S>(nullptr)) == 1;
};

// ------------------------------------------------------------------------------------------------ transcript
static bool g_modelOk = true;
static char g_line[4096];
static void model_fail(const char *what) {
  g_modelOk = false;
  std::string s = std::string("MODEL-MISMATCH ") + what;
  G.tr(s);
}
template <class C>
static std::string contents_of(const C &c) {
  std::string r;
  char b[32];
  size_t k = 0;
  for (typename C::const_iterator it = c.begin(); it != c.end(); ++it, ++k) {
    if (k >= 40) { r += " .."; break; }
    snprintf(b, sizeof b, "%s%d:%d", k ? " " : "", it->k(), it->p());
    r += b;
  }
  return r;
}
static std::string ev_str() {
  char b[96];
  snprintf(b, sizeof b, "ev=%u,%u,%u,%u,%u,%u,%u", G.opElemEv[0], G.opElemEv[1], G.opElemEv[2], G.opElemEv[3], G.opElemEv[4], G.opElemEv[5], G.opElemEv[6]);
  return b;
}

// Allocator requests, element events and comparator calls are *not* observable results of the user's program: they are kept
// in the dump (lines starting with '~') for diagnosis but are not part of the compared transcript.
static void note_internal() {
  if (!G.keepTranscript) return;
  char b[64];
  snprintf(b, sizeof b, " cmp=%u", G.opCmpCalls);
  G.transcript += "~ " + G.allocLog + " " + ev_str() + b + "\n";
}

// ------------------------------------------------------------------------------------------------ vector script
template <class V, bool Extras>
struct ExtraOps {
  static bool run(int, V &, V &, std::vector<Val> &, std::vector<Val> &, Rng &, int &, size_t, std::string &) { return false; }
};
#ifdef AMC_NONSTD_FEATURES
template <class V>
struct ExtraOps<V, true> {
  typedef typename V::value_type T;
  typedef typename V::size_type S;
  static bool run(int which, V &v, V &w, std::vector<Val> &m, std::vector<Val> &mw, Rng &r, int &pay, size_t room, std::string &desc) {
    char b[96];
    switch (which) {
      case 4: {
        v.swap2(w);
        m.swap(mw);
        desc = "swap2";
        return true;
      }
      case 0: {
        size_t n = r.below(4);
        if (m.size() + n > room) n = room - m.size();
        v.append((S)n);
        m.insert(m.end(), n, std::is_same<T, EAgg>::value ? Val{0, 7} : Val{0, 0});
        snprintf(b, sizeof b, "append(%zu)", n); desc = b;
        return true;
      }
      case 1: {
        size_t n = r.below(4);
        if (m.size() + n > room) n = room - m.size();
        Val x{(int)r.below(50), ++pay};
        T t(x.key, x.pay);
        v.append((S)n, t);
        m.insert(m.end(), n, x);
        snprintf(b, sizeof b, "append(%zu,%d:%d)", n, x.key, x.pay); desc = b;
        return true;
      }
      case 2: {
        size_t n = r.below(4);
        if (m.size() + n > room) n = room - m.size();
        std::vector<T> src;
        std::vector<Val> xs;
        for (size_t i = 0; i < n; ++i) { Val x{(int)r.below(50), ++pay}; xs.push_back(x); src.push_back(T(x.key, x.pay)); }
        v.append(src.begin(), src.end());
        m.insert(m.end(), xs.begin(), xs.end());
        snprintf(b, sizeof b, "append(range %zu)", n); desc = b;
        return true;
      }
      case 3: {
        if (m.empty()) { desc = "pop_back_val(skip)"; return true; }
        T t = v.pop_back_val();
        if (t.k() != m.back().key || t.p() != m.back().pay) model_fail("pop_back_val value");
        m.pop_back();
        desc = "pop_back_val";
        return true;
      }
      default:
        return false;
    }
  }
};
#endif

// SmallVector(amc::vector&&): adopt the dynamic buffer of a vector (possibly smaller than the inline capacity)
template <class V, bool Adoptable>
struct AdoptOp {
  static bool run(V &, std::vector<Val> &, Rng &, int &, size_t, std::string &) { return false; }
};
template <class V>
struct AdoptOp<V, true> {
  typedef typename V::value_type T;
  typedef amc::vector<T, typename V::allocator_type, typename V::size_type> AV;
  static bool run(V &v, std::vector<Val> &m, Rng &r, int &pay, size_t room, std::string &desc) {
    size_t n = 1 + r.below(4);
    if (n > room) n = room;
    AV av;
    std::vector<Val> xs;
    for (size_t i = 0; i < n; ++i) { Val x{(int)r.below(50), ++pay}; xs.push_back(x); av.push_back(T(x.key, x.pay)); }
    if (r.below(2)) av.shrink_to_fit();
    V tmp(std::move(av));
    v = std::move(tmp);
    m = xs;
    char b[64];
    snprintf(b, sizeof b, "adopt_vector(%zu)", n);
    desc = b;
    return true;
  }
};
template <class V>
struct IsAdoptable {
  typedef amc::vector<typename V::value_type, typename V::allocator_type, typename V::size_type> AV;
  static const bool value = (V::kInlineCapacity > 0) && !std::is_same<typename V::allocator_type, amc::vec::EmptyAlloc>::value && !std::is_same<V, AV>::value;
};

template <class V>
struct VecScript {
  typedef typename V::value_type T;
  typedef typename V::size_type S;

  static Val value_init_val() { return std::is_same<T, EAgg>::value ? Val{0, 7} : Val{0, 0}; }
  static void check(const V &v, const std::vector<Val> &m, const char *what) {
    if ((size_t)v.size() != m.size() || v.empty() != m.empty()) { model_fail(what); return; }
    if (v.data() && ((uintptr_t)v.data() % alignof(typename V::value_type)) != 0) { model_fail("data() is not aligned for the element type"); return; }
    size_t i = 0;
    for (typename V::const_iterator it = v.begin(); it != v.end(); ++it, ++i)
      if (it->k() != m[i].key || it->p() != m[i].pay) { model_fail(what); return; }
  }

  static void run(uint64_t seed, int mask) {
    Rng r(seed);
    size_t room = V::kInlineCapacity && std::is_same<typename V::allocator_type, amc::vec::EmptyAlloc>::value ? (size_t)V::kInlineCapacity : 24;
    if ((size_t)std::numeric_limits<S>::max() < room) room = (size_t)std::numeric_limits<S>::max();
    bool fixed = std::is_same<typename V::allocator_type, amc::vec::EmptyAlloc>::value;
    int pay = 0;
    {
      V a, b;
      std::vector<Val> ma, mb;
      unsigned steps = 10 + r.below(50);
      for (unsigned step = 0; step < steps; ++step) {
        G.begin_op((int)step, 0, (int)step, "op");
        bool useB = r.below(4) == 0;
        V &v = useB ? b : a;
        V &w = useB ? a : b;
        std::vector<Val> &m = useB ? mb : ma;
        std::vector<Val> &mw = useB ? ma : mb;
        unsigned op = r.below(mask ? 38 : 33);
        size_t sz = m.size();
        std::string desc;
        char d[160];
        const char *exc = "";
        // about one operation in eight carries an injected element fault (the k-th throwing-capable element event of the operation,
        // harness temporaries included): the pre-C++17 builds select other memory algorithms, whose clean-up must behave the same
        bool faulty = T::kHooks && r.below(8) == 0;
        unsigned fk = r.below(7);
        G.faultKind = faulty ? F_ELEM : F_NONE; G.faultCountdown = faulty ? (int)fk : -1; G.faultFired = false;
        G.armed = faulty;  // throw points only exist while armed (begin_op disarms)
        bool threwFault = false;
        try {
          switch (op) {
            case 0: case 1: {
              Val x{(int)r.below(50), ++pay};
              bool over = sz + 1 > room;
              if (over && !fixed) { desc = "push_back(skip)"; break; }
              T t(x.key, x.pay);
              if (op == 0) v.push_back(t); else v.push_back(std::move(t));
              m.push_back(x);
              snprintf(d, sizeof d, "push_back%s(%d:%d)", op ? "&&" : "", x.key, x.pay); desc = d;
            } break;
            case 2: {
              Val x{(int)r.below(50), ++pay};
              if (sz + 1 > room && !fixed) { desc = "emplace_back(skip)"; break; }
              T &ref = v.emplace_back(x.key, x.pay);
              m.push_back(x);
              if (&ref != &v.back()) model_fail("emplace_back reference");
              snprintf(d, sizeof d, "emplace_back(%d:%d)", x.key, x.pay); desc = d;
            } break;
            case 3: case 4: case 5: {
              Val x{(int)r.below(50), ++pay};
              size_t pos = r.below((unsigned)sz + 1);
              if (sz + 1 > room && !fixed) { desc = "insert1(skip)"; break; }
              T t(x.key, x.pay);
              typename V::iterator it = op == 3 ? v.insert(v.begin() + pos, t) : op == 4 ? v.insert(v.begin() + pos, std::move(t)) : v.emplace(v.begin() + pos, x.key, x.pay);
              m.insert(m.begin() + pos, x);
              if ((size_t)(it - v.begin()) != pos) model_fail("insert returned position");
              snprintf(d, sizeof d, "insert%u(%zu,%d:%d)", op, pos, x.key, x.pay); desc = d;
            } break;
            case 6: {
              Val x{(int)r.below(50), ++pay};
              size_t pos = r.below((unsigned)sz + 1), n = r.below(4);
              if (sz + n > room && !fixed) n = room - sz;
              T t(x.key, x.pay);
              typename V::iterator it = v.insert(v.begin() + pos, (S)n, t);
              m.insert(m.begin() + pos, n, x);
              if ((size_t)(it - v.begin()) != pos) model_fail("insert(n) returned position");
              snprintf(d, sizeof d, "insert(%zu,%zu,%d:%d)", pos, n, x.key, x.pay); desc = d;
            } break;
            case 7: case 8: case 9: {
              size_t pos = r.below((unsigned)sz + 1), n = r.below(5);
              if (sz + n > room && !fixed) n = room - sz;
              std::vector<T> src;
              std::vector<Val> xs;
              for (size_t i = 0; i < n; ++i) { Val x{(int)r.below(50), ++pay}; xs.push_back(x); src.push_back(T(x.key, x.pay)); }
              typename V::iterator it;
              if (op == 7) it = v.insert(v.begin() + pos, src.data(), src.data() + src.size());
              else if (op == 8) { std::list<T> l(src.begin(), src.end()); it = v.insert(v.begin() + pos, l.begin(), l.end()); }
              else { InputStream<T> st(src); it = v.insert(v.begin() + pos, InputIt<T>(&st), InputIt<T>()); }
              m.insert(m.begin() + pos, xs.begin(), xs.end());
              if ((size_t)(it - v.begin()) != pos) model_fail("insert(range) returned position");
              snprintf(d, sizeof d, "insert_range%u(%zu,%zu)", op, pos, n); desc = d;
            } break;
            case 10: {
              if (!sz) { desc = "erase(skip)"; break; }
              size_t pos = r.below((unsigned)sz);
              typename V::iterator it = v.erase(v.begin() + pos);
              m.erase(m.begin() + pos);
              if ((size_t)(it - v.begin()) != pos) model_fail("erase returned position");
              snprintf(d, sizeof d, "erase(%zu)", pos); desc = d;
            } break;
            case 11: {
              size_t pos = r.below((unsigned)sz + 1), n = r.below(3);
              size_t e = pos + n > sz ? sz : pos + n;
              typename V::iterator it = v.erase(v.begin() + pos, v.begin() + e);
              m.erase(m.begin() + pos, m.begin() + e);
              if ((size_t)(it - v.begin()) != pos) model_fail("erase(range) returned position");
              snprintf(d, sizeof d, "erase(%zu,%zu)", pos, e); desc = d;
            } break;
            case 12: if (sz) { v.pop_back(); m.pop_back(); } desc = "pop_back"; break;
            case 13: case 14: {
              size_t n = r.below((unsigned)room + 1);
              if (n > 12) n = n % 12;
              if (op == 13) { v.resize((S)n); m.resize(n, value_init_val()); snprintf(d, sizeof d, "resize(%zu)", n); }
              else { Val x{(int)r.below(50), ++pay}; T t(x.key, x.pay); v.resize((S)n, t); m.resize(n, x); snprintf(d, sizeof d, "resize(%zu,%d:%d)", n, x.key, x.pay); }
              desc = d;
            } break;
            case 15: v.clear(); m.clear(); desc = "clear"; break;
            case 16: { size_t n = r.below((unsigned)room + 1); v.reserve((S)n); if ((size_t)v.capacity() < n) model_fail("reserve"); snprintf(d, sizeof d, "reserve(%zu)", n); desc = d; } break;
            case 17: v.shrink_to_fit(); desc = "shrink_to_fit"; break;
            case 18: {
              size_t n = r.below(6);
              if (n > room) n = room;
              Val x{(int)r.below(50), ++pay};
              T t(x.key, x.pay);
              v.assign((S)n, t);
              m.assign(n, x);
              snprintf(d, sizeof d, "assign(%zu,%d:%d)", n, x.key, x.pay); desc = d;
            } break;
            case 19: case 20: {
              size_t n = r.below(6);
              if (n > room) n = room;
              std::vector<T> src;
              std::vector<Val> xs;
              for (size_t i = 0; i < n; ++i) { Val x{(int)r.below(50), ++pay}; xs.push_back(x); src.push_back(T(x.key, x.pay)); }
              if (op == 19) v.assign(src.begin(), src.end());
              else { InputStream<T> st(src); v.assign(InputIt<T>(&st), InputIt<T>()); }
              m = xs;
              snprintf(d, sizeof d, "assign_range%u(%zu)", op, n); desc = d;
            } break;
            case 21: {
              Val x{(int)r.below(50), ++pay}, y{(int)r.below(50), ++pay};
              if (room < 2) { desc = "assign_il(skip)"; break; }
              T t(x.key, x.pay), u(y.key, y.pay);
              if (r.below(2)) v = {t, u}; else v.assign({t, u});
              m.clear(); m.push_back(x); m.push_back(y);
              desc = "assign_il";
            } break;
            case 22: v = w; m = mw; desc = "copy_assign"; break;
            case 23: {
              v = std::move(w); m = mw;
              mw.clear();
              for (typename V::const_iterator it = w.begin(); it != w.end(); ++it) mw.push_back(Val{it->k(), it->p()});
              desc = "move_assign";
            } break;
            case 24: if (r.below(2)) v.swap(w); else { using std::swap; swap(v, w); } m.swap(mw); desc = "swap"; break;
            case 25: { V c(w); check(c, mw, "copy ctor"); desc = "copy_ctor"; } break;
            case 26: {
              V c(std::move(w));
              check(c, mw, "move ctor");
              mw.clear();
              for (typename V::const_iterator it = w.begin(); it != w.end(); ++it) mw.push_back(Val{it->k(), it->p()});
              w = std::move(c);
              for (typename V::const_iterator it = w.begin(); it != w.end(); ++it) (void)it;
              mw.clear();
              for (typename V::const_iterator it = w.begin(); it != w.end(); ++it) mw.push_back(Val{it->k(), it->p()});
              desc = "move_ctor";
            } break;
            case 27: {
              unsigned bits = (v == w) | ((v != w) << 1) | ((v < w) << 2) | ((v <= w) << 3) | ((v > w) << 4) | ((v >= w) << 5);
              unsigned mbits = (m == mw) | ((m != mw) << 1) | ((m < mw) << 2) | ((m <= mw) << 3) | ((m > mw) << 4) | ((m >= mw) << 5);
              if (bits != mbits) model_fail("comparison operators");
              snprintf(d, sizeof d, "compare=%u", bits); desc = d;
            } break;
            case 28: {
              size_t i = sz + r.below(2);
              bool threw = false;
              try { (void)v.at((S)i); } catch (std::out_of_range &) { threw = true; }
              if (threw != (i >= sz)) model_fail("at() bounds check");
              snprintf(d, sizeof d, "at(%zu)%s", i, threw ? " out_of_range" : ""); desc = d;
            } break;
            case 29: {
              if (!sz) { desc = "access(skip)"; break; }
              size_t i = r.below((unsigned)sz);
              const V &cv = v;
              if (cv[(S)i].p() != m[i].pay || cv.front().p() != m.front().pay || cv.back().p() != m.back().pay || cv.data()[i].p() != m[i].pay ||
                  (*(cv.rbegin())).p() != m.back().pay)
                model_fail("element access");
              snprintf(d, sizeof d, "access(%zu)", i); desc = d;
            } break;
            case 30: {
              if (!sz || (sz + 1 > room && !fixed)) { desc = "alias(skip)"; break; }
              size_t src = r.below((unsigned)sz), pos = r.below((unsigned)sz + 1);
              Val x = m[src];
              v.insert(v.begin() + pos, v[(S)src]);
              m.insert(m.begin() + pos, x);
              snprintf(d, sizeof d, "insert_alias(%zu,%zu)", pos, src); desc = d;
            } break;
            case 31: {
              size_t n = r.below(4);
              if (n > room) n = room;
              { V c((S)n); std::vector<Val> mc(n, value_init_val()); check(c, mc, "ctor(n)"); }
              Val x{(int)r.below(50), ++pay};
              T t(x.key, x.pay);
              { V c((S)n, t); std::vector<Val> mc(n, x); check(c, mc, "ctor(n,v)"); }
              snprintf(d, sizeof d, "ctors(%zu)", n); desc = d;
            } break;
            case 32:
              if (!AdoptOp<V, IsAdoptable<V>::value>::run(v, m, r, pay, room, desc)) desc = "adopt_vector(n/a)";
              break;
            default:
              if (!ExtraOps<V, HasAppend<V>::value>::run((int)op - 33, v, w, m, mw, r, pay, room, desc)) desc = "extra(unavailable)";
              break;
          }
        } catch (std::out_of_range &) { exc = " !out_of_range";
        } catch (std::overflow_error &) { exc = " !overflow_error";
        } catch (std::bad_alloc &) { exc = " !bad_alloc";
        } catch (SimFault &) { exc = " !fault"; threwFault = true; }
        G.faultKind = F_NONE; G.faultCountdown = -1; G.armed = false;
        if (threwFault) {
          // basic guarantee: both vectors valid, every element alive, nothing leaked or destroyed twice; the models adopt what they hold
          ma.clear(); mb.clear();
          for (typename V::const_iterator it = a.begin(); it != a.end(); ++it) { if (T::state_of(*it) != ES_ALIVE) model_fail("element not alive after an injected fault"); ma.push_back(Val{it->k(), it->p()}); }
          for (typename V::const_iterator it = b.begin(); it != b.end(); ++it) { if (T::state_of(*it) != ES_ALIVE) model_fail("element not alive after an injected fault"); mb.push_back(Val{it->k(), it->p()}); }
          if (g_elems.liveArmed + g_elems.liveHarness != (long)(a.size() + b.size())) model_fail("elements leaked or destroyed twice after an injected fault");
          if (G.viol.set()) model_fail(G.viol.what.c_str());
        } else if (*exc && !fixed) model_fail("unexpected exception");
        check(a, ma, "contents a");
        check(b, mb, "contents b");
        snprintf(g_line, sizeof g_line, "#%u %c %s%s | a:%zu/%zu [%s] b:%zu/%zu [%s]", step, useB ? 'b' : 'a', desc.c_str(), exc, (size_t)a.size(), (size_t)a.capacity(),
                 contents_of(a).c_str(), (size_t)b.size(), (size_t)b.capacity(), contents_of(b).c_str());
        G.tr(g_line);
        note_internal();
      }
    }
    G.begin_op(9999, 0, 9999, "teardown");
    if (g_elems.liveArmed != 0 || g_elems.liveHarness != 0) model_fail("elements alive after teardown");
    if (g_heap.live_blocks() != 0) model_fail("blocks outstanding after teardown");
    if (G.viol.set()) model_fail(G.viol.what.c_str());
  }
};

// ------------------------------------------------------------------------------------------------ set script (FlatSet and SmallSet)
template <class S, bool Flat>
struct SetScript {
  typedef typename S::value_type T;
  typedef typename S::key_compare C;
  typedef std::set<Val, ModelCmp> Model;

  static void check(const S &s, const Model &m, const char *what) {
    if ((size_t)s.size() != m.size() || s.empty() != m.empty()) { model_fail(what); return; }
    std::vector<Val> got, want(m.begin(), m.end());
    for (typename S::const_iterator it = s.begin(); it != s.end(); ++it) got.push_back(Val{it->k(), it->p()});
    if (!Flat) { std::sort(got.begin(), got.end()); std::sort(want.begin(), want.end()); }
    if (got != want) model_fail(what);
  }
  static std::string sorted_contents(const S &s) {
    std::vector<Val> got;
    for (typename S::const_iterator it = s.begin(); it != s.end(); ++it) got.push_back(Val{it->k(), it->p()});
    if (!Flat) std::sort(got.begin(), got.end());
    std::string r;
    char b[32];
    for (size_t i = 0; i < got.size() && i < 40; ++i) { snprintf(b, sizeof b, "%s%d:%d", i ? " " : "", got[i].key, got[i].pay); r += b; }
    return r;
  }

  static void run(uint64_t seed, int) {
    Rng r(seed);
    int mode = 1 + (int)r.below(3);
    int pay = 0;
    unsigned dom = 4 + r.below(20);
    {
      S a((C(mode))), b((C(mode)));
      Model ma(ModelCmp{mode}), mb(ModelCmp{mode});
      unsigned steps = 10 + r.below(50);
      for (unsigned step = 0; step < steps; ++step) {
        G.begin_op((int)step, 0, (int)step, "op");
        bool useB = r.below(4) == 0;
        S &s = useB ? b : a;
        S &w = useB ? a : b;
        Model &m = useB ? mb : ma;
        Model &mw = useB ? ma : mb;
        unsigned op = r.below(16);
        char d[160];
        std::string desc;
        switch (op) {
          case 0: case 1: case 2: {
            Val x{(int)r.below(dom), ++pay};
            T t(x.key, x.pay);
            std::pair<typename S::iterator, bool> pr = op == 0 ? s.insert(t) : op == 1 ? s.insert(std::move(t)) : s.emplace(x.key, x.pay);
            std::pair<Model::iterator, bool> mr = m.insert(x);
            if (pr.second != mr.second || pr.first == s.end() || pr.first->p() != mr.first->pay) model_fail("insert result");
            snprintf(d, sizeof d, "insert%u(%d:%d)=%d", op, x.key, x.pay, (int)pr.second); desc = d;
          } break;
          case 3: case 4: {
            Val x{(int)r.below(dom), ++pay};
            size_t hp = r.below((unsigned)m.size() + 1);
            typename S::const_iterator h = s.begin();
            for (size_t i = 0; i < hp; ++i) ++h;
            T t(x.key, x.pay);
            typename S::iterator it = op == 3 ? s.insert(h, t) : s.emplace_hint(h, x.key, x.pay);
            std::pair<Model::iterator, bool> mr = m.insert(x);
            if (it == s.end() || it->p() != mr.first->pay) model_fail("hinted insert result");
            snprintf(d, sizeof d, "insert_hint%u(%zu,%d:%d)", op, hp, x.key, x.pay); desc = d;
          } break;
          case 5: {
            size_t n = r.below(r.below(4) ? 5 : 24);
            std::vector<T> src;
            for (size_t i = 0; i < n; ++i) { Val x{(int)r.below(dom), ++pay}; src.push_back(T(x.key, x.pay)); m.insert(x); }
            s.insert(src.begin(), src.end());
            snprintf(d, sizeof d, "insert_range(%zu)", n); desc = d;
          } break;
          case 6: {
            Val x{(int)r.below(dom), 0};
            T t(x.key, 0);
            size_t c = (size_t)s.erase(t), mc = m.erase(x);
            if (c != mc) model_fail("erase(key) count");
            snprintf(d, sizeof d, "erase_key(%d)=%zu", x.key, c); desc = d;
          } break;
          case 7: {
            if (m.empty()) { desc = "erase_pos(skip)"; break; }
            size_t pos = r.below((unsigned)m.size());
            typename S::const_iterator it = s.begin();
            for (size_t i = 0; i < pos; ++i) ++it;
            Val victim{it->k(), it->p()};
            s.erase(it);
            m.erase(victim);
            snprintf(d, sizeof d, "erase_pos(%d:%d)", victim.key, victim.pay); desc = d;
          } break;
          case 8: {
            Val x{(int)r.below(dom), 0};
            T t(x.key, 0);
            typename S::const_iterator it = s.find(t);
            Model::iterator mi = m.find(x);
            if ((it == s.end()) != (mi == m.end()) || (it != s.end() && it->p() != mi->pay) || s.contains(t) != (mi != m.end()) || s.count(t) != m.count(x))
              model_fail("find/contains/count");
            snprintf(d, sizeof d, "find(%d)=%d", x.key, (int)(mi != m.end())); desc = d;
          } break;
          case 9: {
            s.merge(w);
            for (Model::iterator it = mw.begin(); it != mw.end();) { if (m.insert(*it).second) mw.erase(it++); else ++it; }
            desc = "merge";
          } break;
          case 10: s.swap(w); m.swap(mw); desc = "swap"; break;
          case 11: s = w; m = mw; desc = "copy_assign"; break;
          case 12: {
            s = std::move(w); m = mw; mw.clear();
            for (typename S::const_iterator it = w.begin(); it != w.end(); ++it) mw.insert(Val{it->k(), it->p()});
            desc = "move_assign";
          } break;
          case 13: {
            std::vector<Val> x(m.begin(), m.end()), y(mw.begin(), mw.end());
            unsigned bits = (s == w) | ((s != w) << 1) | ((s < w) << 2) | ((s <= w) << 3) | ((s > w) << 4) | ((s >= w) << 5);
            unsigned mbits = (x == y) | ((x != y) << 1) | ((x < y) << 2) | ((x <= y) << 3) | ((x > y) << 4) | ((x >= y) << 5);
            if (bits != mbits) model_fail("set comparison operators");
            snprintf(d, sizeof d, "compare=%u", bits); desc = d;
          } break;
          case 14: s.clear(); m.clear(); desc = "clear"; break;
          default: {
            // erase-while-iterating
            unsigned mod = 2 + r.below(2), guard = 0, n0 = (unsigned)m.size();
            for (typename S::const_iterator it = s.begin(); it != s.end();) {
              if (++guard > n0 + 1) { model_fail("erase loop does not terminate"); break; }
              if (it->k() % (int)mod == 0) it = s.erase(it); else ++it;
            }
            for (Model::iterator it = m.begin(); it != m.end();) { if (it->key % (int)mod == 0) m.erase(it++); else ++it; }
            snprintf(d, sizeof d, "erase_loop(%u)", mod); desc = d;
          } break;
        }
        check(a, ma, "set contents a");
        check(b, mb, "set contents b");
        if (G.opPoisonCmpCalls) model_fail("default-constructed comparator used");
        snprintf(g_line, sizeof g_line, "#%u %c %s | a:%zu [%s] b:%zu [%s]", step, useB ? 'b' : 'a', desc.c_str(), (size_t)a.size(), sorted_contents(a).c_str(),
                 (size_t)b.size(), sorted_contents(b).c_str());
        G.tr(g_line);
        note_internal();
      }
    }
    G.begin_op(9999, 0, 9999, "teardown");
    if (g_elems.liveArmed != 0 || g_elems.liveHarness != 0) model_fail("elements alive after teardown");
    if (g_heap.live_blocks() != 0) model_fail("blocks outstanding after teardown");
    if (G.viol.set()) model_fail(G.viol.what.c_str());
  }
};

namespace sim {
// ------------------------------------------------------------------------------------------------ ESwapT
/// An element with its own (ADL) swap that may throw the injected fault, although its moves are noexcept: a container that swaps
/// elements one by one (inline storage) must not promise noexcept for its own swap then, in any language standard.
struct ESwapT : ENonTr<true> {
  ESwapT() : ENonTr<true>() {}
  ESwapT(int k, int p) : ENonTr<true>(k, p) {}
  ESwapT(const ESwapT &o) : ENonTr<true>(o) {}
  ESwapT(ESwapT &&o) noexcept : ENonTr<true>(std::move(o)) {}
  ESwapT &operator=(const ESwapT &o) { ENonTr<true>::operator=(o); return *this; }
  ESwapT &operator=(ESwapT &&o) noexcept { ENonTr<true>::operator=(std::move(o)); return *this; }
  friend void swap(ESwapT &a, ESwapT &b) {
    G.elem_throw_point(EV_COPY_ASSIGN);
    ESwapT t(std::move(a));
    a = std::move(b);
    b = std::move(t);
  }
};

}  // namespace sim
// ------------------------------------------------------------------------------------------------ configurations
typedef SimCmpT<0, false> Cmp0;
typedef void (*ScriptFn)(uint64_t, int);
struct Config {
  const char *name;
  ScriptFn fn;
  int minStd;  // 11 or 17
};
#define ABT(T) amc::BasicAllocatorWrapper<T, SimBasicAlloc>
typedef ENonTr<true> ENT;
static Config kConfigs[] = {
    {"vector<ETriv,B>", &VecScript<amc::vector<ETriv, ABT(ETriv)> >::run, 11},
    {"vector<ENonTr,B>", &VecScript<amc::vector<ENT, ABT(ENT)> >::run, 11},
    {"vector<ETr,R,u16>", &VecScript<amc::vector<ETr, SimReallocAlloc<ETr>, uint16_t> >::run, 11},
    {"SmallVector<ETr,3,B>", &VecScript<amc::SmallVector<ETr, 3, ABT(ETr)> >::run, 11},
    {"SmallVector<ENonTr,4,S>", &VecScript<amc::SmallVector<ENT, 4, SimStdAlloc<ENT> > >::run, 11},
    {"SmallVector<ETriv,2,B,u8>", &VecScript<amc::SmallVector<ETriv, 2, ABT(ETriv), uint8_t> >::run, 11},
    {"SmallVector<ETrivS,3,B>", &VecScript<amc::SmallVector<ETrivS, 3, ABT(ETrivS)> >::run, 11},
    {"Fixed<ETr,6>", &VecScript<amc::FixedCapacityVector<ETr, 6> >::run, 11},
    {"vector<EAgg,B>", &VecScript<amc::vector<EAgg, ABT(EAgg)> >::run, 11},
    {"Fixed<EAgg,6>", &VecScript<amc::FixedCapacityVector<EAgg, 6> >::run, 11},
    {"Fixed<ENonTr,5>", &VecScript<amc::FixedCapacityVector<ENT, 5> >::run, 11},
    {"SmallVector<EAl16,3,B>", &VecScript<amc::SmallVector<EAl16, 3, ABT(EAl16)> >::run, 11},
    {"Fixed<EAl16,4>", &VecScript<amc::FixedCapacityVector<EAl16, 4> >::run, 11},
    {"SmallVector<ESwapT,3,B>", &VecScript<amc::SmallVector<ESwapT, 3, ABT(ESwapT)> >::run, 11},
    {"Fixed<ESwapT,5>", &VecScript<amc::FixedCapacityVector<ESwapT, 5> >::run, 11},
    {"FlatSet<ETriv,B>", &SetScript<amc::FlatSet<ETriv, Cmp0, ABT(ETriv)>, true>::run, 11},
    {"FlatSet<ENonTr,SmallVector<4,S>>", &SetScript<amc::FlatSet<ENT, Cmp0, SimStdAlloc<ENT>, amc::SmallVector<ENT, 4, SimStdAlloc<ENT> > >, true>::run, 11},
    {"FlatSet<ETr,B>", &SetScript<amc::FlatSet<ETr, Cmp0, ABT(ETr)>, true>::run, 11},
#ifdef AMC_SMALLSET
    {"SmallSet<ENonTr,3,std::set<S>>", &SetScript<amc::SmallSet<ENT, 3, Cmp0, SimStdAlloc<ENT> >, false>::run, 17},
    {"SmallSet<ETr,2,FlatSet<B>>", &SetScript<amc::SmallSet<ETr, 2, Cmp0, ABT(ETr), amc::FlatSet<ETr, Cmp0, ABT(ETr)> >, false>::run, 17},
#endif
};
static const int kNConfigs = (int)(sizeof kConfigs / sizeof kConfigs[0]);

static uint64_t run_one(const Config &c, uint64_t seed, int mask, bool keep) {
  G.reset_run(seed);
  G.keepTranscript = keep;
  g_heap.reset();
  g_elems.reset();
  g_modelOk = true;
  G.armed = true;  // every element is created by container code or on its behalf; no fault is injected here
  c.fn(seed, mask);
  G.armed = false;
  return G.trHash;
}

static void on_signal(int sig) {
  const char *m = sig == SIGALRM ? "\nCRASH class=HANG\n" : "\nCRASH class=SIGNAL\n";
  ssize_t r = write(1, m, strlen(m));
  (void)r;
  _exit(sig == SIGALRM ? 78 : 76);
}
extern "C" __attribute__((used)) const char *__asan_default_options() { return "exitcode=77:detect_leaks=0:quarantine_size_mb=16"; }

int main(int argc, char **argv) {
  setvbuf(stdout, nullptr, _IOLBF, 0);
  signal(SIGALRM, on_signal); signal(SIGSEGV, on_signal); signal(SIGABRT, on_signal);
  if (argc < 2) return 2;
  std::string cmd = argv[1];
  typedef amc::vector<ETriv, ABT(ETriv)> PV;
  typedef amc::FlatSet<ETriv, Cmp0, ABT(ETriv)> PS;
  if (cmd == "features") {
    printf("FEATURES append=%d pop_back_val=%d swap2=%d flatset_data=%d smallset=%d\n", (int)HasAppend<PV>::value, (int)HasPopBackVal<PV>::value, (int)HasSwap2<PV>::value,
           (int)HasSetData<PS>::value,
#ifdef AMC_SMALLSET
           1
#else
           0
#endif
    );
    return 0;
  }
  if (cmd == "run" && argc >= 5) {
    uint64_t base = strtoull(argv[2], nullptr, 10);
    unsigned count = (unsigned)atoi(argv[3]);
    int mask = atoi(argv[4]);
    if (mask && !HasAppend<PV>::value) { fprintf(stderr, "this build has no extras\n"); return 2; }
    unsigned bad = 0;
    for (int c = 0; c < kNConfigs; ++c)
      for (unsigned i = 0; i < count; ++i) {
        uint64_t seed = mix64(base, i);
        alarm(20);
        uint64_t h = run_one(kConfigs[c], seed, mask, false);
        if (!g_modelOk) ++bad;
        printf("H %d %u %016llx %d\n", c, i, (unsigned long long)h, (int)g_modelOk);
      }
    alarm(0);
    printf("DONE configs=%d seeds=%u model_failures=%u\n", kNConfigs, count, bad);
    return 0;
  }
  if (cmd == "dump" && argc >= 6) {
    int c = atoi(argv[2]);
    uint64_t base = strtoull(argv[3], nullptr, 10);
    unsigned i = (unsigned)atoi(argv[4]);
    int mask = atoi(argv[5]);
    if (c < 0 || c >= kNConfigs) return 2;
    alarm(20);
    run_one(kConfigs[c], mix64(base, i), mask, true);
    printf("CONFIG %s\n", kConfigs[c].name);
    fputs(G.transcript.c_str(), stdout);
    printf("HASH %016llx model_ok=%d\n", (unsigned long long)G.trHash, (int)g_modelOk);
    return g_modelOk ? 0 : 1;
  }
  return 2;
}
