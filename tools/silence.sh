#!/bin/bash
# usage: silence.sh <variant> <seconds per job> [seed]   -- runs every (engine, family, profile) of the simulator binary on /repo's tree and prints
# every violation that is not the open C08 finding.  Used while developing; the registered checks do the same through the driver.
V=${1:-plain}; S=${2:-2}; SEED=${3:-1}
B=${SIMBIN:-$(ls -t /verif/build/$V-*/sim | head -1)}
$B list > /tmp/silence-list.json
python3 - "$B" "$S" "$SEED" <<'P'
import json,subprocess,sys,concurrent.futures as cf
B,S,SEED=sys.argv[1],sys.argv[2],sys.argv[3]
info=json.load(open('/tmp/silence-list.json'))
jobs=[]
for e in info['engines']:
    for f in e['families']:
        for p in e['profiles']+['scenario']:
            jobs.append((e['name'],f['family'],p))
def run(j):
    e,f,p=j
    cmd=[B,'enum',e,f,SEED,'0','100000000',S,'1'] if p=='scenario' else [B,'run',e,f,p,SEED,'0','100000000',S,'1']
    r=subprocess.run(cmd,stdout=subprocess.PIPE,stderr=subprocess.STDOUT,text=True,errors='replace')
    out=[]
    for l in r.stdout.splitlines():
        if (l.startswith('V ') or 'CRASH' in l or l.startswith('INTERNAL')):
            if 'props=C08' in l and ('opkind=ASSIGN_RANGE' in l or 'opkind=APPEND_RANGE' in l or 'opkind=INSERT_RANGE' in l): continue
            out.append(l[:330])
    return j,out,('DONE' in r.stdout)
n=0
with cf.ThreadPoolExecutor(16) as ex:
    for j,out,done in ex.map(run,jobs):
        n+=1
        if out or not done:
            print(j, 'done' if done else 'NOT-DONE', len(out)); [print('   ',o) for o in out[:3]]
print('jobs',n)
P
