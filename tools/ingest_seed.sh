#!/bin/bash
# usage: ingest_seed.sh <property> <agent output dir> <id for first change> [<id for second change>]
# Splits an agent's output into one directory per change, confirms each with verify_seed.sh and runs the property's quick check against it.
PROP=$1; SRC=$2; ID1=$3; ID2=${4:-}
one() {
  local id=$1 p=$2 d=$3 n=$4
  [ -f "$SRC/$p" ] || return
  local tmp=/tmp/ingest-$id; rm -rf $tmp; mkdir -p $tmp
  cp "$SRC/$p" $tmp/patch.diff; cp "$SRC/$d" $tmp/demo.cpp; cp "$SRC/$n" $tmp/notes.md 2>/dev/null
  local cc=$(grep -m1 '^COMPILE:' $tmp/notes.md | sed 's/^COMPILE: *//; s/`//g; s/  *(.*$//')
  if [ -n "$cc" ]; then /verif/tools/verify_seed.sh $id $tmp $PROP "$cc"; else /verif/tools/verify_seed.sh $id $tmp $PROP; fi
  rm -rf $tmp
}
one $ID1 patch.diff demo.cpp notes.md
[ -n "$ID2" ] && one $ID2 patch2.diff demo2.cpp notes2.md
