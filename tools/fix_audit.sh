#!/bin/bash
# For every fix: commit of /repo listed in findings/FIXES.tsv: run the named check on the PARENT of the fix (it must report a
# violation), keep one minimised replay as findings/<name>.replay, then replay that file on the fix commit itself (must not reproduce).
# Output: findings/AUDIT.txt.   usage: fix_audit.sh [name-substring]
OUT=/verif/findings/AUDIT.txt
FILTER=${1:-}
[ -z "$FILTER" ] && : > $OUT
grep -v '^#' /verif/findings/FIXES.tsv | while IFS=$'\t' read -r key prop check name; do
  [ -n "$FILTER" ] && [[ "$name" != *"$FILTER"* ]] && continue
  fix=$(git -C /repo log --format=%h --grep="$key" -F | tail -1)
  [ -z "$fix" ] && { echo "$name: fix commit not found ($key)" >> $OUT; continue; }
  pw=/tmp/amc-audit-parent; fw=/tmp/amc-audit-fix
  rm -rf $pw $fw; git -C /repo worktree add -q --detach $pw ${fix}^; git -C /repo worktree add -q --detach $fw $fix
  rm -f /verif/replays/$prop-*
  VERIF_REPO=$pw /verif/bin/check $check --tier quick --seconds 10 > /tmp/audit-$name.log 2>&1; rc=$?
  # choose the replay whose description matches best: the first VIOLATION with a replay file
  # the parent may still contain defects repaired by later commits: keep the first replay that this very commit repairs
  rep=""; r2=9
  for cand in $(grep "^VIOLATION property=$prop replay=/" /tmp/audit-$name.log | sed 's/.*replay=//' | head -10); do
    cp "$cand" /tmp/audit-cand.replay
    VERIF_REPO=$fw /verif/bin/check replay /tmp/audit-cand.replay > /tmp/audit-$name.r2 2>&1; r2=$?
    if [ $r2 -eq 0 ]; then rep=$cand; break; fi
  done
  if [ $rc -ne 1 ] || [ -z "$rep" ]; then echo "$name: fix=$fix parent check rc=$rc NO-REPLAY-REPAIRED-BY-THIS-COMMIT" >> $OUT
  else
    cp "$rep" /verif/findings/$name.replay
    what=$(grep -A1 "^VIOLATION property=$prop replay=$rep" /tmp/audit-$name.log | tail -1 | cut -c3-260)
    VERIF_REPO=$pw /verif/bin/check replay /verif/findings/$name.replay > /tmp/audit-$name.r1 2>&1; r1=$?
    echo "$name: fix=$fix property=$prop parent-check-rc=$rc replay-on-parent-rc=$r1 replay-on-fix-rc=$r2 :: $what" >> $OUT
  fi
  git -C /repo worktree remove --force $pw; git -C /repo worktree remove --force $fw
done
cat $OUT
