#!/bin/bash
# For every mutant patch: apply it to a scratch worktree of /repo HEAD, run the repository's own suite, record the result.
OUT=/verif/mutants/BASELINE.txt
: > $OUT.tmp
run_one() {
  p=$1; n=$(basename $p .patch); wt=/tmp/amc-mb-$n
  rm -rf $wt; git -C /repo worktree add -q --detach $wt HEAD || exit 1
  if ! git -C $wt apply $p 2>/dev/null; then echo "$n apply-failed"; else echo "$n $(/verif/tools/baseline_on.sh $wt | head -1)"; fi
  git -C /repo worktree remove --force $wt
}
export -f run_one
ls /verif/mutants/*.patch | xargs -P 4 -I{} bash -c 'run_one {}' >> $OUT.tmp
sort $OUT.tmp > $OUT; rm $OUT.tmp; cat $OUT
