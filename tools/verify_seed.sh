#!/bin/bash
# usage: verify_seed.sh <id> <dir with patch.diff demo.cpp notes.md> <property> [compile command template with %I for the include dir and %S for demo.cpp and %O for output]
# Confirms independently, in a scratch worktree of /repo HEAD: demo passes without the change, fails with it, the repository's suite passes with it.
set -u
ID=$1; SRC=$2; PROP=$3; CC=${4:-"g++ -std=c++17 -DAMC_NONSTD_FEATURES -I%I %S -o %O"}
WT=/tmp/vs-$ID
rm -rf $WT; git -C /repo worktree add -q --detach $WT HEAD || exit 1
trap "git -C /repo worktree remove --force $WT" EXIT
cc() { echo "$CC" | sed "s#%I#$WT/include#g; s#%S#$SRC/demo.cpp#g; s#%O#$WT/demo_$1#g"; }
$(cc clean) 2>$WT/cc1.log || { echo "RESULT $ID demo does not compile on the unmodified tree"; tail -3 $WT/cc1.log; exit 1; }
( cd $WT && timeout 120 ./demo_clean >/dev/null 2>&1 ); rc_clean=$?
git -C $WT apply $SRC/patch.diff || { echo "RESULT $ID patch does not apply"; exit 1; }
$(cc mut) 2>$WT/cc2.log || { echo "RESULT $ID demo does not compile with the change"; tail -3 $WT/cc2.log; exit 1; }
( cd $WT && timeout 120 ./demo_mut >/dev/null 2>&1 ); rc_mut=$?
suite=$(/verif/tools/baseline_on.sh $WT | head -1)
echo "RESULT $ID demo_clean_rc=$rc_clean demo_changed_rc=$rc_mut suite='$suite'"
if [ $rc_clean -eq 0 ] && [ $rc_mut -ne 0 ] && [[ "$suite" == "BASELINE pass"* ]]; then
  mkdir -p /verif/seeded/$ID && cp $SRC/patch.diff $SRC/demo.cpp /verif/seeded/$ID/ && cp $SRC/notes.md /verif/seeded/$ID/notes.md 2>/dev/null
  echo "KEEP $ID"
else
  echo "DISCARD $ID"
fi
