#!/bin/bash
# usage: baseline_on.sh <amc source tree>   -- builds the repository's own test suite against that tree (same options as /repo/_build) and runs it
set -u
SRC=$1
B=$SRC/_vbuild
rm -rf "$B"
cmake -G Ninja -S "$SRC" -B "$B" -DCMAKE_BUILD_TYPE=RelWithDebInfo -DCMAKE_CXX_STANDARD=17 -DCMAKE_CXX_FLAGS=-Wno-error -DAMC_ENABLE_BENCHMARKS=OFF \
  -DGTest_DIR=/root/miniconda/lib/cmake/GTest >/dev/null 2>&1 || { echo "BASELINE configure-failed"; exit 3; }
if ! cmake --build "$B" >"$B.log" 2>&1; then echo "BASELINE build-failed"; tail -5 "$B.log"; exit 2; fi
if ctest --test-dir "$B" -j8 --timeout 900 >"$B.ctest" 2>&1; then
  n=0; for t in "$B"/test/*_test; do c=$("$t" --gtest_brief=1 2>/dev/null | grep -oE "^\[  PASSED  \] [0-9]+" | grep -oE "[0-9]+$"); n=$((n + ${c:-0})); done
  echo "BASELINE pass ($n gtest cases)"; rm -rf "$B" "$B.log" "$B.ctest"; exit 0
else
  echo "BASELINE FAIL"; grep -E "Failed|\*\*\*" "$B.ctest" | head -5; rm -rf "$B" "$B.log" "$B.ctest"; exit 1
fi
